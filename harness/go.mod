module ruxverif/harness

go 1.21

require github.com/gookit/rux v0.0.0

replace github.com/gookit/rux => /repo
