module ruxverif/harness

go 1.21

require github.com/gookit/rux v0.0.0

require (
	github.com/gookit/color v1.5.4 // indirect
	github.com/gookit/filter v1.2.2 // indirect
	github.com/gookit/goutil v0.6.18 // indirect
	github.com/gookit/validate v1.5.4 // indirect
	github.com/monoculum/formam v3.5.5+incompatible // indirect
	github.com/xo/terminfo v0.0.0-20220910002029-abceb7e1c41e // indirect
	golang.org/x/sync v0.10.0 // indirect
	golang.org/x/text v0.21.0 // indirect
)

replace github.com/gookit/rux => /repo
