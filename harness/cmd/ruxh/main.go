// Command ruxh is the conformance harness that binds the TLA+ specification in /verif/spec to the
// real github.com/gookit/rux code (built from the repository working tree with -tags verif).
//
//	ruxh <family> replay <cases.ndjson>             execute TLC-exported behaviours, compare observables
//	ruxh <family> record <trace.ndjson> [n]         drive the real code (seeded), write a trace for TLC
//
// The last stdout line is one JSON summary object. Exit code 0 = ran to completion (mismatches are
// data, not errors); anything else = the harness itself failed (inconclusive).
package main

import (
	"bufio"
	"encoding/json"
	"fmt"
	"github.com/gookit/rux"
	"math/rand"
	"os"
	"strconv"
)

type Mismatch struct {
	Desc map[string]any `json:"desc"`
	Case any            `json:"case"`
}

type Summary struct {
	Family        string         `json:"family"`
	Mode          string         `json:"mode"`
	Cases         int            `json:"cases"`
	Compared      int            `json:"compared"`
	MismatchCount int            `json:"mismatch_count"`
	Mismatches    []Mismatch     `json:"mismatches"`
	Samples       []any          `json:"samples"`
	Info          map[string]any `json:"info,omitempty"`
	ByAspect      map[string]int `json:"by_aspect,omitempty"`
}

func (s *Summary) mismatch(desc map[string]any, c any) {
	s.MismatchCount++
	if a, ok := desc["aspect"].(string); ok {
		if s.ByAspect == nil {
			s.ByAspect = map[string]int{}
		}
		s.ByAspect[a]++
		if s.ByAspect[a] > 4 && len(s.Mismatches) >= 8 {
			return
		}
	}
	if len(s.Mismatches) < 20 {
		s.Mismatches = append(s.Mismatches, Mismatch{desc, c})
	}
}

func (s *Summary) sample(v any) {
	if len(s.Samples) < 3 {
		s.Samples = append(s.Samples, v)
	}
}

func (s *Summary) info(k string, v any) {
	if s.Info == nil {
		s.Info = map[string]any{}
	}
	s.Info[k] = v
}

func (s *Summary) addInfo(k string, n int) {
	if s.Info == nil {
		s.Info = map[string]any{}
	}
	old, _ := s.Info[k].(int)
	s.Info[k] = old + n
}

type family struct {
	replay func(s *Summary, raw json.RawMessage)
	record func(s *Summary, rng *rand.Rand, n int, out *traceWriter)
	finish func(s *Summary)
}

var families = map[string]*family{}

type traceWriter struct {
	w *bufio.Writer
	n int
}

func (t *traceWriter) emit(v any) {
	b, err := json.Marshal(v)
	if err != nil {
		panic(err)
	}
	t.w.Write(b)
	t.w.WriteByte('\n')
	t.n++
}

func seed() int64 {
	v, err := strconv.ParseInt(os.Getenv("VERIF_SEED"), 10, 64)
	if err != nil {
		return 1
	}
	return v
}

func fatal(f string, a ...any) {
	fmt.Fprintf(os.Stderr, f+"\n", a...)
	os.Exit(3)
}

func main() {
	// a global path variable of the application's own (patterns.py GLOBALS): "{uid}" means `\d+` wherever no regex is given
	rux.SetGlobalVar("uid", `\d+`)
	if len(os.Args) < 4 {
		fatal("usage: ruxh <family> replay|record <file> [n]")
	}
	fam, ok := families[os.Args[1]]
	if !ok {
		fatal("unknown family %s", os.Args[1])
	}
	sum := &Summary{Family: os.Args[1], Mode: os.Args[2], Mismatches: []Mismatch{}, Samples: []any{}}
	switch os.Args[2] {
	case "replay":
		if fam.replay == nil {
			fatal("family %s has no replay", os.Args[1])
		}
		f, err := os.Open(os.Args[3])
		if err != nil {
			fatal("%v", err)
		}
		sc := bufio.NewScanner(f)
		sc.Buffer(make([]byte, 1<<20), 1<<28)
		for sc.Scan() {
			line := sc.Bytes()
			if len(line) == 0 {
				continue
			}
			cp := make([]byte, len(line))
			copy(cp, line)
			sum.Cases++
			fam.replay(sum, cp)
		}
		if err := sc.Err(); err != nil {
			fatal("%v", err)
		}
	case "record":
		if fam.record == nil {
			fatal("family %s has no recorder", os.Args[1])
		}
		n := 100
		if len(os.Args) > 4 {
			n, _ = strconv.Atoi(os.Args[4])
		}
		f, err := os.Create(os.Args[3])
		if err != nil {
			fatal("%v", err)
		}
		tw := &traceWriter{w: bufio.NewWriterSize(f, 1<<20)}
		fam.record(sum, rand.New(rand.NewSource(seed())), n, tw)
		tw.w.Flush()
		f.Close()
		sum.info("events", tw.n)
	default:
		fatal("unknown mode %s", os.Args[2])
	}
	if fam.finish != nil {
		fam.finish(sum)
	}
	b, _ := json.Marshal(sum)
	fmt.Println(string(b))
}
