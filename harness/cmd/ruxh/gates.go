package main

import (
	"bytes"
	"encoding/base64"
	"encoding/json"
	"fmt"
	"io"
	"mime/multipart"
	"net/http"
	"net/http/httptest"
	"net/url"
	"reflect"
	"strings"

	"github.com/gookit/rux"
	"github.com/gookit/rux/pkg/handlers"
)

// family "gates": binds RuxGates (spec/RuxGates.tla) to handlers.HTTPBasicAuth, handlers.HTTPMethodOverrideHandler,
// Router.WrapHTTPHandlers and rux.WrapHTTPHandler.

type gateCase struct {
	Gate     string      `json:"gate"`
	Accounts [][2]string `json:"accounts"`
	Cred     struct {
		Kind  string `json:"kind"`
		User  string `json:"user"`
		Pwd   string `json:"pwd"`
		Shape int    `json:"shape"`
	} `json:"cred"`
	Expect  string `json:"expect"`
	M       string `json:"m"`
	Form    string `json:"form"`
	Hdr     string `json:"hdr"`
	Allowed []struct {
		M    string `json:"m"`
		Orig string `json:"orig"`
	} `json:"allowed"`
	Ws    []string `json:"ws"`
	Order []string `json:"order"`
}

func init() {
	families["gates"] = &family{replay: gatesReplay}
}

func gatesReplay(s *Summary, raw json.RawMessage) {
	var c gateCase
	if err := json.Unmarshal(raw, &c); err != nil {
		fatal("bad gates case: %v", err)
	}
	if len(s.Samples) < 3 {
		s.sample(c)
	}
	switch c.Gate {
	case "auth":
		gatesAuth(s, &c)
	case "override":
		gatesOverride(s, &c)
	case "wrap":
		gatesWrap(s, &c)
	}
}

// several concrete encodings per abstract credential shape
func authHeaders(c *gateCase) []string {
	b64 := func(x string) string { return base64.StdEncoding.EncodeToString([]byte(x)) }
	switch c.Cred.Kind {
	case "absent":
		return []string{"<none>"}
	case "malformed":
		return map[int][]string{
			1: {"Bearer abc", "Digest username=\"u\""},
			2: {"Basic !!!notbase64", "Basic dTpw="},
			3: {"Basic " + b64("nocolon")},
			4: {"Basic", "Basic" + b64("u:p")},
			5: {"", " "},
		}[c.Cred.Shape]
	}
	cred := b64(c.Cred.User + ":" + c.Cred.Pwd)
	return []string{"Basic " + cred, "basic " + cred, "BASIC " + cred}
}

func gatesAuth(s *Summary, c *gateCase) {
	accounts := map[string]string{}
	for _, a := range c.Accounts {
		accounts[a[0]] = a[1]
	}
	for _, hv := range authHeaders(c) {
		for posk := 0; posk < 15; posk++ { // the gate as global, group or route middleware; 3: behind a handler that has already written
			pos, preflight := posk%5, posk >= 5 && posk < 10 // preflight: the same as an OPTIONS request that looks like a CORS preflight
			if posk >= 10 {
				pos = posk - 5 // 5, 6: the gate behind an outer gate without account list / behind a middleware that stored a user name; 7, 8: see below
			}
			ran := []string{}
			r := rux.New()
			auth := handlers.HTTPBasicAuth(accounts)
			if posk%2 == 1 && len(accounts) > 0 {
				// the account list is the application's map: created empty, handed to the gate, filled from the configuration
				// afterwards (before any request is served)
				late := map[string]string{}
				auth = handlers.HTTPBasicAuth(late)
				for k, v := range accounts {
					late[k] = v
				}
			}
			mark := func(tag string) rux.HandlerFunc { return func(cx *rux.Context) { ran = append(ran, tag) } }
			switch pos {
			case 0:
				r.Use(mark("before"), auth, mark("after"))
				r.Add("/p", mark("main"), "GET", "OPTIONS")
			case 1:
				r.Use(mark("before"))
				r.Group("/", func() { r.Add("/p", mark("main"), "GET", "OPTIONS").Use(mark("after")) }, auth)
			case 2:
				r.Use(mark("before"))
				r.Add("/p", mark("main"), "GET", "OPTIONS").Use(auth, mark("after"))
			case 5:
				// an outer gate WITHOUT account list (any well-formed credentials) in front of the gate that has one
				r.Use(mark("before"), handlers.HTTPBasicAuth(nil))
				r.Group("/", func() { r.Add("/p", mark("main"), "GET", "OPTIONS").Use(mark("after")) }, auth)
			case 6:
				// an earlier middleware of the application has stored the name the client CLAIMS under the key the gate uses
				r.Use(mark("before"), func(cx *rux.Context) { cx.Set("username", c.Cred.User) })
				r.Group("/", func() { r.Add("/p", mark("main"), "GET", "OPTIONS").Use(mark("after")) }, auth)
			case 7:
				// the route carries middleware of its own when it is attached inside the gated group (Any, a prepared route
				// object): the group's gate still comes first
				r.Use(mark("before"))
				r.Group("/", func() { r.Any("/p", mark("main"), mark("after")) }, auth)
			case 8:
				r.Use(mark("before"))
				r.Group("/", func() { rux.NewRoute("/p", mark("main"), "GET", "OPTIONS").Use(mark("after")).AttachTo(r) }, auth)
			case 9:
				// two gates made by ONE helper (one call site), added with Use at two group levels: staff area, admin area inside it
				mkGate := func(acc map[string]string) rux.HandlerFunc { return handlers.HTTPBasicAuth(acc) }
				gates := []rux.HandlerFunc{}
				for _, acc := range []map[string]string{nil, accounts} {
					gates = append(gates, mkGate(acc))
				}
				r.Use(mark("before"))
				r.Group("/", func() {
					r.Use(gates[0])
					r.Group("/", func() {
						r.Use(gates[1])
						r.Add("/p", mark("main"), "GET", "OPTIONS").Use(mark("after"))
					})
				})
			case 4:
				// the gate as route middleware inside a group whose chain was grown by single Use calls (spare capacity), with a
				// sibling route that has middleware of its own registered after it
				r.Use(mark("before"))
				r.Group("/", func() {
					r.Use(nopHandler)
					r.Use(nopHandler)
					r.Use(nopHandler)
					r.Add("/p", mark("main"), "GET", "OPTIONS").Use(auth) // (a single route middleware: it fits into the spare slot)
					r.Add("/q", nopHandler, "GET").Use(mark("other"))
				})
			default:
				// a generic http.Handler wrapped as middleware has started the response before the gate is reached: the gate can
				// no longer change the status, but it still decides whether anything downstream runs
				r.Use(mark("before"), rux.WrapHTTPHandler(http.HandlerFunc(func(w http.ResponseWriter, _ *http.Request) { _, _ = w.Write([]byte("banner;")) })),
					auth, mark("after"))
				r.Add("/p", mark("main"), "GET", "OPTIONS")
			}
			req := &http.Request{Method: "GET", URL: &url.URL{Path: "/p"}, Header: http.Header{}, Proto: "HTTP/1.1"}
			if preflight {
				req.Method = "OPTIONS"
				req.Header.Set("Access-Control-Request-Method", "DELETE")
				req.Header.Set("Origin", "http://elsewhere.example")
			}
			if hv != "<none>" {
				req.Header.Set("Authorization", hv)
			}
			if posk%3 == 1 { // a script on a page asks (XMLHttpRequest): the gate answers it like any other client
				req.Header.Set("X-Requested-With", "XMLHttpRequest")
				req.Header.Set("Accept", "application/json")
			}
			w := httptest.NewRecorder()
			r.ServeHTTP(w, req)
			s.Compared++
			downstream := len(ran) == 3 || (pos == 4 && reflect.DeepEqual(ran, []string{"before", "main"}))
			wantCode := map[string]int{"pass": 200, "401": 401, "403": 403}[c.Expect]
			challenge := w.Header().Get("WWW-Authenticate") != ""
			if pos == 3 { // status and headers are on the wire already
				wantCode, challenge = w.Code, c.Expect == "401"
			}
			if w.Code != wantCode || downstream != (c.Expect == "pass") || (c.Expect == "401") != challenge || (c.Expect != "pass" && !reflect.DeepEqual(ran, []string{"before"})) {
				s.mismatch(map[string]any{"kind": "gates", "aspect": "auth", "what": fmt.Sprintf(
					"HTTPBasicAuth(accounts %v) as %s middleware, Authorization %q: status %d, handlers run %v, challenge=%v; the statement gives %s",
					accounts, []string{"global", "group", "route", "global (after a handler that has written)", "route (in a group with three Use calls, before a sibling route)", "group (behind a global gate without account list)", "group (behind a middleware that stored the claimed user name)",
						"group (the route is registered with Any and its own middleware)", "group (a prepared route object with its own middleware is attached)", "inner group (two gates made by one helper, added with Use at two group levels)"}[pos]+map[bool]string{true: " (OPTIONS preflight)", false: ""}[preflight], hv, w.Code, ran, challenge, c.Expect)}, c)
				return
			}
		}
	}
}

func gatesOverride(s *Summary, c *gateCase) {
	type seen struct{ m, orig string }
	var got *seen
	r := rux.New()
	r.Any("/o", func(cx *rux.Context) {
		o, _ := cx.Req.Context().Value(handlers.OriginalMethodContextKey).(string)
		if o == "" {
			o = "none"
		}
		got = &seen{cx.Req.Method, o}
	})
	h := r.WrapHTTPHandlers(handlers.HTTPMethodOverrideHandler)
	body := ""
	target := "/o"
	hdr := http.Header{}
	if c.Form != "" {
		if (c.M == "POST" || c.M == "PUT" || c.M == "PATCH") && len(c.Form)%2 == 1 {
			// the form field travels in a multipart body
			var buf bytes.Buffer
			mw := multipart.NewWriter(&buf)
			mw.WriteField("_method", c.Form)
			mw.Close()
			body = buf.String()
			hdr.Set("Content-Type", mw.FormDataContentType())
		} else if c.M == "POST" || c.M == "PUT" || c.M == "PATCH" {
			body = "_method=" + url.QueryEscape(c.Form)
			hdr.Set("Content-Type", "application/x-www-form-urlencoded")
		} else {
			target += "?_method=" + url.QueryEscape(c.Form)
		}
	}
	if c.Hdr != "" {
		hdr.Set(handlers.HTTPMethodOverrideHeader, c.Hdr)
	}
	u, _ := url.Parse("http://example.com" + target)
	req := &http.Request{Method: c.M, URL: u, Header: hdr, Proto: "HTTP/1.1", Body: io.NopCloser(strings.NewReader(body)),
		ContentLength: int64(len(body)), Host: "example.com"}
	w := httptest.NewRecorder()
	h.ServeHTTP(w, req)
	s.Compared++
	ok := false
	if got != nil {
		for _, a := range c.Allowed {
			ok = ok || (a.M == got.m && a.Orig == got.orig)
		}
	}
	if !ok {
		s.mismatch(map[string]any{"kind": "gates", "aspect": "override", "what": fmt.Sprintf(
			"%s request with _method=%q and %s=%q: the routed handler saw %+v, admissible %v", c.M, c.Form, handlers.HTTPMethodOverrideHeader, c.Hdr, got, c.Allowed)}, c)
	}
}

func gatesWrap(s *Summary, c *gateCase) {
	log := []string{}
	mk := func(name string) func(http.Handler) http.Handler {
		return func(next http.Handler) http.Handler {
			return http.HandlerFunc(func(w http.ResponseWriter, r *http.Request) {
				log = append(log, "in:"+name)
				next.ServeHTTP(w, r)
				log = append(log, "out:"+name)
			})
		}
	}
	r := rux.New()
	// wrapped generic handlers take part in the chain like native middleware
	type reqKey struct{}
	var genericSaw any
	generic := http.HandlerFunc(func(w http.ResponseWriter, r *http.Request) {
		log = append(log, "in:generic")
		genericSaw = r.Context().Value(reqKey{}) // what a native middleware before it put into the request context
		w.Write([]byte("g"))                     // commits the header: the status recorded by the native middleware before must be sent
	})
	var seenStatus, seenLen int
	r.Use(func(cx *rux.Context) {
		log = append(log, "in:native1")
		cx.SetStatus(201)
		cx.WithReqCtxValue(reqKey{}, "from-native1")
		cx.Next()
		seenStatus, seenLen = cx.StatusCode(), cx.Length()
	})
	// two more generic handlers, wrapped and registered in a loop (one call site for both): each of them takes part
	for _, name := range []string{"loop1", "loop2"} {
		name := name
		r.Use(rux.WrapHTTPHandler(http.HandlerFunc(func(http.ResponseWriter, *http.Request) { log = append(log, "in:"+name) })))
	}
	r.GET("/w", func(cx *rux.Context) { log = append(log, "in:router") }, rux.WrapHTTPHandler(generic),
		func(cx *rux.Context) { log = append(log, "in:native2") })
	ws := []func(http.Handler) http.Handler{}
	for _, n := range c.Ws {
		ws = append(ws, mk(n))
	}
	// the caller's list is used twice (the same wrappers applied to another router first): it must not be modified
	other := rux.New()
	other.GET("/w", nopHandler)
	other.WrapHTTPHandlers(ws...).ServeHTTP(httptest.NewRecorder(), httptest.NewRequest("GET", "http://example.com/w", nil))
	log = log[:0]
	h := r.WrapHTTPHandlers(ws...)
	rec := httptest.NewRecorder()
	h.ServeHTTP(rec, httptest.NewRequest("GET", "http://example.com/w", nil))
	s.Compared++
	if genericSaw != "from-native1" {
		s.mismatch(map[string]any{"kind": "gates", "aspect": "wrap", "what": fmt.Sprintf(
			"a generic handler wrapped with WrapHTTPHandler behind a native middleware that stored a value in the request context finds %v there (a native handler finds \"from-native1\")", genericSaw)}, c)
		return
	}
	if rec.Code != 201 || seenStatus != 201 || seenLen != 1 {
		s.mismatch(map[string]any{"kind": "gates", "aspect": "wrap", "what": fmt.Sprintf(
			"a generic handler wrapped with WrapHTTPHandler after a native middleware that set status 201: response %d, the middleware sees StatusCode()=%d Length()=%d after Next (expected 201, 201, 1)",
			rec.Code, seenStatus, seenLen)}, c)
		return
	}
	want := []string{}
	for _, n := range c.Order {
		if n == "router" {
			want = append(want, "in:native1", "in:loop1", "in:loop2", "in:generic", "in:native2", "in:router")
		} else {
			want = append(want, "in:"+n)
		}
	}
	for i := len(c.Ws) - 1; i >= 0; i-- {
		want = append(want, "out:"+c.Ws[i])
	}
	if !reflect.DeepEqual(log, want) {
		s.mismatch(map[string]any{"kind": "gates", "aspect": "wrap", "what": fmt.Sprintf("WrapHTTPHandlers(%v): a request passes %v, expected %v", c.Ws, log, want)}, c)
	}
}
