package main

import (
	"encoding/json"
	"fmt"
	"net/http"
	"net/http/httptest"
	"net/url"
	"strconv"
	"strings"
	"sync"

	"github.com/gookit/rux"
)

// family "defs": binds RuxDefs (spec/RuxDefs.tla) to route registration and to lookups on whatever was accepted.
//   {"def":[tokens],"verdict":"reject|accept|unspecified"}          path definitions
//   {"method":case,"text":..,"handlernil":bool,"nmw":n,"verdict":..}  method / handler / handler-count dimension
// reject  => registration must panic; accept => it must not; any accepted definition => Match and ServeHTTP never panic
// for a battery of odd methods and paths under several option sets (including caching).

type defsLine struct {
	Def        []string `json:"def"`
	Verdict    string   `json:"verdict"`
	VStrict    string   `json:"verdict_strict"`
	VGroup     string   `json:"verdict_group"` // the definition as the prefix of a group around the plain route "/a"
	VGroupS    string   `json:"verdict_group_strict"`
	Method     *string  `json:"method"`
	Text       string   `json:"text"`
	HandlerNil bool     `json:"handlernil"`
	Nmw        int      `json:"nmw"`
}

var defsJobs chan defsLine
var defsWG sync.WaitGroup
var defsMu sync.Mutex

func init() {
	families["defs"] = &family{replay: defsReplay, finish: func(s *Summary) {
		if defsJobs != nil {
			close(defsJobs)
			defsWG.Wait()
		}
		// options changed after routes exist - however many (the values around the boundaries of the integer types included)
		for _, nroutes := range []int{0, 1, 2, 255, 256, 257, 32767, 32768, 65535, 65536, 65537} {
			for oi, opt := range []func(*rux.Router){rux.StrictLastSlash, rux.EnableCaching} {
				r := rux.New()
				for i := 0; i < nroutes; i++ {
					if i%2 == 0 {
						r.GET("/a"+strconv.Itoa(i), nopHandler)
					} else {
						r.GET("/d"+strconv.Itoa(i)+"/{id}", nopHandler)
					}
				}
				var pan, lp any
				func() {
					defer func() { pan = recover() }()
					r.WithOptions(opt)
				}()
				s.Compared++
				if (pan != nil) != (nroutes > 0) {
					s.mismatch(map[string]any{"kind": "defs", "aspect": "verdict", "what": fmt.Sprintf("WithOptions (option %d) on a router with %d routes: panicked=%v", oi, nroutes, pan != nil)}, nil)
				}
				func() { // whatever registration accepted, lookups never panic
					defer func() { lp = recover() }()
					r.Match("GET", "/d1/7")
					r.Match("GET", "/d1/7")
				}()
				if lp != nil {
					s.mismatch(map[string]any{"kind": "defs", "aspect": "lookup-panic", "what": fmt.Sprintf("router with %d routes after WithOptions (option %d, panicked=%v): Match panicked: %v", nroutes, oi, pan != nil, lp)}, nil)
				}
			}
		}
	}}
}

var defsMethods = []string{"GET", "", "get", "FOO", "\xff", "HEAD", "OPTIONS"}
var defsPaths = []string{"", " ", "/", "//", "\xff\xfe", "/a", "/a/", "/x", "/a/x", "/1", "/a/1", "/a.x", "/a1", "/ax", "a", "/a/a/a",
	"/" + strings.Repeat("a", 300), "/./a", "/a?", "/a*", "/a(", "/a)", "/{a}", "/[a]", "/a:x", "/1/1", "/x/a/1"}

func defsOptionSets() [][]func(*rux.Router) {
	return [][]func(*rux.Router){
		{},
		{rux.StrictLastSlash, rux.HandleMethodNotAllowed},
		{rux.CachingWithNum(2), rux.HandleFallbackRoute},
		{rux.EnableCaching, rux.HandleMethodNotAllowed, rux.UseEncodedPath},
		{rux.CachingWithNum(0)},                                              // caching enabled with capacity 0
		{rux.EnableCaching, rux.MaxNumCaches(0), rux.HandleMethodNotAllowed}, // the same, the other way round
	}
}

func methodCaseText(c string) string {
	return map[string]string{"GET": "GET", "get": "get", "spaced": " post ", "DEL": "DEL", "GE": "GE", "empty": "", "FOO": "FOO",
		"list": "GET,POST", "T": "T", "ONNECT": "ONNECT"}[c]
}

func defsReplay(s *Summary, raw json.RawMessage) {
	var l defsLine
	if err := json.Unmarshal(raw, &l); err != nil {
		fatal("bad defs line: %v", err)
	}
	if defsJobs == nil {
		defsJobs = make(chan defsLine, 256)
		for w := 0; w < 16; w++ {
			defsWG.Add(1)
			go func() {
				defer defsWG.Done()
				for j := range defsJobs {
					defsRun(s, j)
				}
			}()
		}
	}
	if l.Method == nil && len(s.Samples) < 3 && l.Verdict != "unspecified" {
		defsMu.Lock()
		s.sample(map[string]any{"def": strings.Join(l.Def, ""), "verdict": l.Verdict})
		defsMu.Unlock()
	}
	defsJobs <- l
}

func defsRun(s *Summary, l defsLine) {
	path := strings.Join(l.Def, "")
	method := "GET"
	var handler rux.HandlerFunc = nopHandler
	label := fmt.Sprintf("GET(%q)", path)
	if l.Method != nil {
		path = "/a"
		method = methodCaseText(*l.Method)
		if l.HandlerNil {
			handler = nil
		}
		label = fmt.Sprintf("Add(%q, handler nil=%v, method %q, %d middleware)", path, l.HandlerNil, method, l.Nmw)
	}
	report := func(aspect, what string) {
		defsMu.Lock()
		s.mismatch(map[string]any{"kind": "defs", "aspect": aspect, "def": path, "verdict": l.Verdict, "what": what}, l)
		defsMu.Unlock()
	}
	compared := 0
	for oi, opts := range defsOptionSets() {
		r := newRouter(opts...)
		var pan any
		func() {
			defer func() { pan = recover() }()
			mw := make([]rux.HandlerFunc, l.Nmw)
			for i := range mw {
				mw[i] = nopHandler
			}
			if l.Method != nil && l.Nmw >= 2 && oi%2 == 1 && handler != nil {
				// the same number of handlers, split between a group and a route object that carries its share when it is attached
				half := l.Nmw / 2
				r.Group("/", func() { rux.NewRoute(path, handler, method).Use(mw[half:]...).AttachTo(r) }, mw[:half]...)
				return
			}
			// the registration entry points take turns: every one of them applies the same checks
			if handler == nil && l.Nmw >= 1 && oi >= 3 {
				// no main handler, but the route object already carries middleware when it is registered
				switch oi {
				case 3:
					rux.NewRoute(path, nil, method).Use(mw...).AttachTo(r)
				case 4:
					r.AddRoute(rux.NewNamedRoute("n", path, nil, method).Use(mw...))
				default:
					r.Any(path, nil, mw...)
				}
				return
			}
			if method == "GET" && handler != nil && oi >= 4 {
				// Any() registers the route for every method: the same checks, also inside a group without middleware
				if oi == 4 {
					r.Any(path, handler, mw...)
				} else {
					r.Group("/", func() { r.Any(path, handler, mw...) })
				}
				return
			}
			switch oi % 4 {
			case 1:
				r.AddNamed("n", path, handler, method).Use(mw...)
			case 2:
				r.AddRoute(rux.NewNamedRoute("n", path, handler, method)).Use(mw...)
			case 3:
				rt := rux.NewNamedRoute("n", path, handler, method)
				rt.AttachTo(r)
				rt.Use(mw...)
			default:
				r.Add(path, handler, method).Use(mw...)
			}
		}()
		compared++
		verdict := l.Verdict
		if oi == 1 && l.VStrict != "" { // option set 1 has StrictLastSlash: the normalised definition differs
			verdict = l.VStrict
		}
		switch {
		case verdict == "reject" && pan == nil:
			report("verdict", fmt.Sprintf("%s is invalid but registration accepted it (option set %d)", label, oi))
			// still probe it: an accepted definition must be total
		case verdict == "accept" && pan != nil:
			report("verdict", fmt.Sprintf("%s is inside the documented grammar but registration panicked: %v", label, pan))
			continue
		}
		if pan != nil {
			continue
		}
		defsMu.Lock()
		s.addInfo("accepted_"+verdict, 1)
		defsMu.Unlock()
		// totality of lookups on an accepted definition
		paths := defsPaths
		if l.Method == nil {
			lit := strings.NewReplacer("{", "", "}", "", "[", "", "]", "", "(?P<n>", "", "(?:", "", "(", "", ")", "", ":", "", `\d+`, "7", "*", "", "?", "").Replace(path)
			paths = append(append([]string{}, defsPaths...), "/"+strings.TrimLeft(lit, "/"), path)
		}
		for _, m := range defsMethods {
			for _, p := range paths {
				var lp any
				func() {
					defer func() { lp = recover() }()
					r.Match(m, p)
				}()
				compared++
				if lp != nil {
					report("lookup-panic", fmt.Sprintf("%s was accepted; Match(%q, %q) panicked: %v (option set %d)", label, m, p, lp, oi))
					break
				}
				func() {
					defer func() { lp = recover() }()
					req := &http.Request{Method: m, URL: &url.URL{Path: p}, Header: http.Header{}, Proto: "HTTP/1.1"}
					r.ServeHTTP(httptest.NewRecorder(), req)
				}()
				compared++
				if lp != nil {
					report("lookup-panic", fmt.Sprintf("%s was accepted; ServeHTTP(%q %q) panicked: %v (option set %d)", label, m, p, lp, oi))
					break
				}
			}
		}
	}
	// the definition as a group prefix: the route inside is plain, the joined path is what has to be judged
	if l.Method == nil && l.VGroup != "" {
		for oi, opts := range defsOptionSets()[:2] {
			verdict := l.VGroup
			if oi == 1 {
				verdict = l.VGroupS
			}
			for style := 0; style < 3; style++ {
				r := newRouter(opts...)
				var pan any
				func() {
					defer func() { pan = recover() }()
					switch style {
					case 0:
						r.Group(path, func() { r.GET("/a", nopHandler) })
					case 1:
						r.Group(path, func() { r.AddRoute(rux.NewRoute("/a", nopHandler, "GET")) })
					default:
						r.Group(path, func() { rux.NewNamedRoute("n", "/a", nopHandler, "GET").AttachTo(r) })
					}
				}()
				compared++
				glabel := fmt.Sprintf("Group(%q) { GET(\"/a\") } (style %d, option set %d)", path, style, oi)
				switch {
				case verdict == "reject" && pan == nil:
					report("verdict", glabel+": the joined definition is invalid but registration accepted it")
				case verdict == "accept" && pan != nil:
					report("verdict", fmt.Sprintf("%s: the joined definition is inside the documented grammar but registration panicked: %v", glabel, pan))
				}
				if pan != nil {
					continue
				}
				for _, m := range defsMethods[:3] {
					for _, p := range defsPaths {
						var lp any
						func() {
							defer func() { lp = recover() }()
							r.Match(m, p)
							r.Match(m, p+"/a")
						}()
						compared++
						if lp != nil {
							report("lookup-panic", fmt.Sprintf("%s was accepted; Match(%q, %q [+/a]) panicked: %v", glabel, m, p, lp))
							break
						}
					}
				}
			}
		}
	}
	defsMu.Lock()
	s.Compared += compared
	defsMu.Unlock()
}
