package main

import (
	"bytes"
	"encoding/json"
	"encoding/xml"
	"fmt"
	"mime/multipart"
	"net/http"
	"net/http/httptest"
	"net/url"
	"reflect"
	"strconv"
	"strings"

	"github.com/gookit/rux"
	"github.com/gookit/rux/pkg/binding"
)

// family "bind": binds RuxBind (spec/RuxBind.tla) to binding.Auto / Context.Bind and the format binders.
//   {"t":"source","method":..,"media":..,"params":bool,"source":"query|form|multipart|json|xml|error"}
//   {"t":"value","v":{"age":..,"name":[tokens],"ok":..,"tags":[[tokens]..]},"valid":bool}

type bindT struct {
	XMLName xml.Name `json:"-" xml:"bindT" form:"-" query:"-"`
	Age     int      `json:"age" xml:"age" form:"age" query:"age" validate:"min:0"`
	Name    string   `json:"name" xml:"name" form:"name" query:"name"`
	Ok      bool     `json:"ok" xml:"ok" form:"ok" query:"ok"`
	Tags    []string `json:"tags" xml:"tags" form:"tags" query:"tags"`
}

type bindCase struct {
	T      string `json:"t"`
	Method string `json:"method"`
	Media  string `json:"media"`
	Params bool   `json:"params"`
	Source string `json:"source"`
	V      struct {
		Age  int        `json:"age"`
		Name []string   `json:"name"`
		Ok   bool       `json:"ok"`
		Tags [][]string `json:"tags"`
	} `json:"v"`
	Valid bool `json:"valid"`
}

func init() {
	tokenText["AMP"] = "&"
	tokenText["EQ"] = "="
	tokenText["LT"] = "<"
	families["bind"] = &family{replay: bindReplay, finish: bindMalformed}
}

func (v bindT) values() url.Values {
	uv := url.Values{"age": {strconv.Itoa(v.Age)}, "name": {v.Name}, "ok": {strconv.FormatBool(v.Ok)}}
	for _, t := range v.Tags {
		uv.Add("tags", t)
	}
	return uv
}

func multipartBody(uv url.Values) (string, string) {
	var buf bytes.Buffer
	mw := multipart.NewWriter(&buf)
	for k, vs := range uv {
		for _, v := range vs {
			mw.WriteField(k, v)
		}
	}
	mw.Close()
	return buf.String(), mw.Boundary()
}

// bodyFor: a body in the format the media type announces, carrying `v`
func bodyFor(media string, v bindT) (body, ctype string) {
	switch media {
	case "application/x-www-form-urlencoded":
		return v.values().Encode(), media
	case "multipart/form-data":
		b, boundary := multipartBody(v.values())
		return b, media + "; boundary=" + boundary
	case "application/json":
		bs, _ := json.Marshal(v)
		return string(bs), media
	case "application/xml", "text/xml":
		bs, _ := xml.Marshal(v)
		return string(bs), media
	}
	return "name=G&age=9", media
}

func mkReq(method, target, body, ctype string) *http.Request {
	u, _ := url.Parse("http://example.com" + target)
	req := &http.Request{Method: method, URL: u, Header: http.Header{}, Proto: "HTTP/1.1", Host: "example.com"}
	req.Body = http.NoBody
	if body != "" {
		req.Body = nopCloser{strings.NewReader(body)}
		req.ContentLength = int64(len(body))
	}
	if ctype != "" {
		req.Header.Set("Content-Type", ctype)
	}
	return req
}

type nopCloser struct{ *strings.Reader }

func (nopCloser) Close() error { return nil }

func safeBind(fn func() error) (err error, pan any) {
	defer func() { pan = recover() }()
	return fn(), nil
}

func bindReplay(s *Summary, raw json.RawMessage) {
	var c bindCase
	if err := json.Unmarshal(raw, &c); err != nil {
		fatal("bad bind case: %v", err)
	}
	if c.T == "source" {
		bindSource(s, &c)
		return
	}
	bindValue(s, &c)
}

// every potential source carries a different name, so the bound value identifies the source used
func bindSource(s *Summary, c *bindCase) {
	marker := map[string]string{"application/x-www-form-urlencoded": "F", "multipart/form-data": "M", "application/json": "J",
		"application/xml": "X", "text/xml": "X"}[c.Media]
	// the body carries name/age/tags but NOT ok; the query carries all four with other values: a bind that mixes
	// sources shows up in Ok (taken from the query) or in Tags (values of both sources)
	inBody := bindT{Age: 2, Name: marker, Ok: false, Tags: []string{"b"}}
	body, ctype := bodyFor(c.Media, inBody)
	if c.Media == "application/x-www-form-urlencoded" || c.Media == "multipart/form-data" {
		uv := inBody.values()
		uv.Del("ok")
		if c.Media == "multipart/form-data" {
			b, boundary := multipartBody(uv)
			body, ctype = b, c.Media+"; boundary="+boundary
		} else {
			body = uv.Encode()
		}
	}
	want := map[string]string{"query": "Q", "form": "F", "multipart": "M", "json": "J", "xml": "X"}[c.Source]
	baseType := ctype
	// media type parameters do not take part in the choice of the source, whatever characters their values hold
	for api := 0; api < 6; api++ {
		ctype = baseType
		if c.Params && ctype != "" {
			ctype += []string{"; charset=utf-8", "; version=2+beta; charset=utf-8", `; client="app+web/1.0"`}[api/2]
		} else if api >= 2 {
			break
		}
		var v bindT
		req := mkReq(c.Method, "/b?age=1&name=Q&ok=true&tags=q", body, ctype)
		var err error
		var pan any
		if api%2 == 0 {
			err, pan = safeBind(func() error { return binding.Auto(req, &v) })
		} else {
			r := rux.New()
			r.Any("/b", func(cx *rux.Context) { err = cx.Bind(&v) })
			_, pan = safeBind(func() error { r.ServeHTTP(httptest.NewRecorder(), req); return nil })
		}
		s.Compared++
		what := fmt.Sprintf("%s request, Content-Type %q (api %d): ", c.Method, ctype, api)
		desc := func(w string) map[string]any {
			return map[string]any{"kind": "bind", "aspect": "source", "what": what + w}
		}
		switch {
		case pan != nil:
			s.mismatch(desc(fmt.Sprintf("panicked: %v", pan)), c)
		case c.Source == "error" && err == nil:
			s.mismatch(desc(fmt.Sprintf("bound %+v without error; the statement demands an error for this type", v)), c)
		case c.Source != "error" && (err != nil || v.Name != want):
			s.mismatch(desc(fmt.Sprintf("bound name=%q err=%v; the source must be %s (name=%q)", v.Name, err, c.Source, want)), c)
		case c.Source == "query" && !(v.Age == 1 && v.Ok && reflect.DeepEqual(v.Tags, []string{"q"})):
			s.mismatch(desc(fmt.Sprintf("bound %+v; everything must come from the query string (age=1 ok=true tags=[q])", v)), c)
		case c.Source != "error" && c.Source != "query" && !(v.Age == 2 && !v.Ok && reflect.DeepEqual(v.Tags, []string{"b"})):
			s.mismatch(desc(fmt.Sprintf("bound %+v; everything must come from the %s body (age=2 ok=false tags=[b]), nothing from the query string", v, c.Source)), c)
		}
	}
}

func bindValue(s *Summary, c *bindCase) {
	v := bindT{Age: c.V.Age, Name: tokStr(c.V.Name), Ok: c.V.Ok}
	for _, t := range c.V.Tags {
		v.Tags = append(v.Tags, tokStr(t))
	}
	if len(s.Samples) < 3 {
		s.sample(map[string]any{"value": v, "valid": c.Valid})
	}
	for _, media := range []string{"query", "application/x-www-form-urlencoded", "multipart/form-data", "application/json", "text/xml"} {
		for _, validator := range []bool{true, false} {
			if validator {
				binding.ResetValidator()
			} else {
				binding.DisableValidator()
			}
			// the entry points: Auto picks the binder; the binder of the type itself; the binder's raw-data entry point
			for _, entry := range []string{"Auto", "Bind", "raw", "ctx", "ctxmust"} {
				var req *http.Request
				if media == "query" {
					req = mkReq("GET", "/b?"+v.values().Encode(), "", "")
				} else {
					body, ctype := bodyFor(media, v)
					req = mkReq("POST", "/b", body, ctype)
				}
				var got bindT
				var err error
				var pan any
				switch {
				case entry == "Auto":
					err, pan = safeBind(func() error { return binding.Auto(req, &got) })
				case media == "multipart/form-data":
					continue
				case entry == "ctx" || entry == "ctxmust":
					// the methods of Context: BindForm / BindJSON / BindXML / ShouldBind(binder), and MustBind which panics with the error
					// (ONE router for all of them: its pooled contexts go from bind to bind)
					if bindCtxRouter == nil {
						bindCtxRouter = rux.New()
						bindCtxRouter.Any("/b", func(cx *rux.Context) { bindCtxHandler(cx) })
					}
					rr := bindCtxRouter
					bindCtxHandler = func(cx *rux.Context) {
						b := map[string]binding.Binder{"query": binding.Query, "application/x-www-form-urlencoded": binding.Form, "application/json": binding.JSON, "text/xml": binding.XML}[media]
						switch {
						case entry == "ctxmust":
							defer func() {
								if rec := recover(); rec != nil {
									err = fmt.Errorf("MustBind panicked: %v", rec)
								}
							}()
							cx.MustBind(&got, b)
						case media == "application/x-www-form-urlencoded":
							err = cx.BindForm(&got)
						case media == "application/json":
							err = cx.BindJSON(&got)
						case media == "text/xml":
							err = cx.BindXML(&got)
						default:
							err = cx.ShouldBind(&got, b)
						}
					}
					_, pan = safeBind(func() error { rr.ServeHTTP(httptest.NewRecorder(), req); return nil })
				case entry == "Bind":
					b := map[string]binding.Binder{"query": binding.Query, "application/x-www-form-urlencoded": binding.Form, "application/json": binding.JSON, "text/xml": binding.XML}[media]
					err, pan = safeBind(func() error { return b.Bind(req, &got) })
				default:
					raw, _ := bodyFor(media, v)
					switch media {
					case "query":
						err, pan = safeBind(func() error { return binding.Query.BindValues(v.values(), &got) })
					case "application/x-www-form-urlencoded":
						err, pan = safeBind(func() error { return binding.Form.BindValues(v.values(), &got) })
					case "application/json":
						err, pan = safeBind(func() error { return binding.JSON.BindBytes([]byte(raw), &got) })
					default:
						err, pan = safeBind(func() error { return binding.XML.BindBytes([]byte(raw), &got) })
					}
				}
				s.Compared++
				what := fmt.Sprintf("value %+v encoded as %s, entry point %s, validator=%v: ", v, media, entry, validator)
				desc := func(w string) map[string]any {
					return map[string]any{"kind": "bind", "aspect": "roundtrip", "what": what + w}
				}
				same := got.Age == v.Age && got.Name == v.Name && got.Ok == v.Ok && (len(got.Tags) == len(v.Tags)) &&
					(len(v.Tags) == 0 || reflect.DeepEqual(got.Tags, v.Tags))
				switch {
				case pan != nil:
					s.mismatch(desc(fmt.Sprintf("panicked: %v", pan)), c)
				case validator && !c.Valid:
					if err == nil {
						s.mismatch(desc("an invalid value was bound successfully although a validator is enabled"), c)
					}
				case err != nil:
					s.mismatch(desc(fmt.Sprintf("bind failed: %v", err)), c)
				case !same:
					s.mismatch(desc(fmt.Sprintf("bound back as %+v", got)), c)
				case validator && binding.Validate(&got) != nil:
					s.mismatch(desc("successful bind but the struct does not pass validation"), c)
				}
			}
		}
	}
	binding.ResetValidator()
	if !c.Valid {
		// an invalid value followed by MORE well-formed input in the same body: whatever the binder makes of the rest, it
		// never reports success for a struct that does not pass validation
		tails := map[string][]string{"application/json": {" {", " 1", ` "x"`, " null", "\n{}", " []", " }"}, "text/xml": {"<x/>", "<!-- c -->", "<bindT></bindT>", "<"}}
		for media, tl := range tails {
			for _, tail := range tl {
				raw, ctype := bodyFor(media, v)
				for _, entry := range []string{"Auto", "Bind", "raw"} {
					var got bindT
					var err error
					var pan any
					switch {
					case entry == "Auto":
						err, pan = safeBind(func() error { return binding.Auto(mkReq("POST", "/b", raw+tail, ctype), &got) })
					case entry == "Bind" && media == "text/xml":
						err, pan = safeBind(func() error { return binding.XML.Bind(mkReq("POST", "/b", raw+tail, ctype), &got) })
					case entry == "Bind":
						err, pan = safeBind(func() error { return binding.JSON.Bind(mkReq("POST", "/b", raw+tail, ctype), &got) })
					case media == "text/xml":
						err, pan = safeBind(func() error { return binding.XML.BindBytes([]byte(raw+tail), &got) })
					default:
						err, pan = safeBind(func() error { return binding.JSON.BindBytes([]byte(raw+tail), &got) })
					}
					s.Compared++
					if pan != nil || err == nil {
						s.mismatch(map[string]any{"kind": "bind", "aspect": "roundtrip", "what": fmt.Sprintf(
							"invalid value %+v encoded as %s and followed by %q in the same body, entry point %s, validator on: err=%v panic=%v - a bind that succeeds implies validation passed", v, media, tail, entry, err, pan)}, c)
						return
					}
				}
			}
		}
	}
}

var bindCtxRouter *rux.Router
var bindCtxHandler func(cx *rux.Context)

type bindVoid struct {
	Link  string `xml:"link" json:"link"`
	Meta  string `xml:"meta" json:"meta"`
	After string `xml:"after" json:"after"`
}

type bindRequired struct {
	Token string `json:"token" xml:"token" form:"token" query:"token" validate:"required"`
}

// bindGating: a successful bind implies validation passed whenever a validator is enabled - also when the request
// carries no parameter at all; and a body of unknown length (chunked) is still a body
func bindGating(s *Summary) {
	for _, validator := range []bool{true, false} {
		if validator {
			binding.ResetValidator()
		} else {
			binding.DisableValidator()
		}
		cases := []*http.Request{mkReq("GET", "/b", "", ""), mkReq("DELETE", "/b", "", ""), mkReq("POST", "/b", "", "application/x-www-form-urlencoded")}
		for _, req := range cases {
			var v bindRequired
			err, pan := safeBind(func() error { return binding.Auto(req, &v) })
			s.Compared++
			if pan != nil || (validator && err == nil) || (!validator && err != nil) {
				s.mismatch(map[string]any{"kind": "bind", "aspect": "validation", "what": fmt.Sprintf(
					"%s request without any parameter bound into a struct with a required field, validator=%v: err=%v panic=%v", req.Method, validator, err, pan)}, nil)
			}
		}
	}
	// switching validation off (even twice) and on again: on means on
	binding.DisableValidator()
	binding.DisableValidator()
	binding.ResetValidator()
	{
		var v bindRequired
		err, pan := safeBind(func() error { return binding.Auto(mkReq("GET", "/b", "", ""), &v) })
		s.Compared++
		if pan != nil || err == nil {
			s.mismatch(map[string]any{"kind": "bind", "aspect": "validation", "what": fmt.Sprintf(
				"after DisableValidator, DisableValidator, ResetValidator a struct with a missing required field was bound: err=%v panic=%v", err, pan)}, nil)
		}
	}
	binding.ResetValidator()
	// validation depends on the TYPE bound into, not on which types were bound before: rule-less types first, then types
	// with the same (or no) name that do carry rules
	for round := 0; round < 2; round++ {
		for _, tc := range []struct {
			name    string
			target  any
			mustErr bool
		}{{"local type payload without rules", bindLocalPlain(), false}, {"local type payload with a required field", bindLocalRequired(), true},
			{"anonymous struct without rules", &struct {
				Name string `json:"name" form:"name"`
			}{}, false}, {"anonymous struct with a required field", &struct {
				Name string `json:"name" form:"name" validate:"required"`
			}{}, true}} {
			for _, req := range []*http.Request{mkReq("POST", "/b", "{}", "application/json"), mkReq("GET", "/b", "", "")} {
				err, pan := safeBind(func() error { return binding.Auto(req, tc.target) })
				s.Compared++
				if pan != nil || (err == nil) == tc.mustErr {
					s.mismatch(map[string]any{"kind": "bind", "aspect": "validation", "what": fmt.Sprintf(
						"%s request without the field bound into %s (round %d): err=%v panic=%v, an error is expected: %v", req.Method, tc.name, round+1, err, pan, tc.mustErr)}, nil)
				}
			}
		}
	}
	// the data bound comes SOLELY from the request at hand: whatever an earlier request carried (a long body with something
	// behind the first document, a long body that is cut off), the next bind sees only its own body
	for round := 0; round < 30; round++ {
		for _, media := range []string{"application/json", "text/xml"} {
			good, ctype := bodyFor(media, bindT{Age: 7, Name: "n", Ok: true, Tags: []string{"t"}})
			evil, _ := bodyFor(media, bindT{Age: 99, Name: "smuggled", Ok: false, Tags: []string{"z"}})
			pad := strings.Repeat(" ", 700)
			for _, earlier := range []string{good + pad + evil, good[:len(good)/2] + pad + evil, pad + "}" + pad + evil} {
				var ign bindT
				_, _ = safeBind(func() error { return binding.Auto(mkReq("POST", "/b", earlier, ctype), &ign) })
				var got bindT
				err, pan := safeBind(func() error { return binding.Auto(mkReq("POST", "/b", good, ctype), &got) })
				s.Compared++
				if pan != nil || err != nil || got.Name != "n" || got.Age != 7 {
					s.mismatch(map[string]any{"kind": "bind", "aspect": "roundtrip", "what": fmt.Sprintf(
						"%s: after an earlier request with a %d byte body, a well-formed request was bound to %+v err=%v panic=%v", media, len(earlier), got, err, pan)}, nil)
					round = 99
					break
				}
			}
		}
	}
	// XML is XML: element names that HTML treats as void elements are ordinary fields, and what is not well-formed XML is an error
	{
		var got bindVoid
		err, pan := safeBind(func() error {
			return binding.Auto(mkReq("POST", "/b", "<bindVoid><link>l</link><meta>m</meta><after>a</after></bindVoid>", "application/xml"), &got)
		})
		s.Compared++
		if pan != nil || err != nil || got.Link != "l" || got.Meta != "m" || got.After != "a" {
			s.mismatch(map[string]any{"kind": "bind", "aspect": "roundtrip", "what": fmt.Sprintf(
				"XML body with the fields link, meta, after: bound %+v err=%v panic=%v", got, err, pan)}, nil)
		}
		for _, bad := range []string{"<bindVoid><after>a</bindVoid></after>", "<bindVoid><after>a&nbsp;b</after></bindVoid>", "<bindVoid><after>a & b</after></bindVoid>",
			"<bindVoid><after x=1>a</after></bindVoid>", "<bindVoid><br><after>a</after></bindVoid>"} {
			var g2 bindVoid
			err, pan := safeBind(func() error { return binding.Auto(mkReq("POST", "/b", bad, "application/xml"), &g2) })
			s.Compared++
			if pan != nil || err == nil {
				s.mismatch(map[string]any{"kind": "bind", "aspect": "malformed", "what": fmt.Sprintf(
					"XML body %q is not well-formed but was bound without error: %+v (panic %v)", bad, g2, pan)}, nil)
			}
		}
	}
	v := bindT{Age: 7, Name: "n", Ok: true, Tags: []string{"t"}}
	for _, media := range []string{"application/json", "text/xml", "application/x-www-form-urlencoded"} {
		body, ctype := bodyFor(media, v)
		req := mkReq("POST", "/b", body, ctype)
		req.ContentLength = -1 // Transfer-Encoding: chunked
		var got bindT
		err, pan := safeBind(func() error { return binding.Auto(req, &got) })
		s.Compared++
		if pan != nil || err != nil || got.Name != "n" || got.Age != 7 {
			s.mismatch(map[string]any{"kind": "bind", "aspect": "roundtrip", "what": fmt.Sprintf(
				"%s body of unknown length (ContentLength -1): bound %+v err=%v panic=%v", media, got, err, pan)}, nil)
		}
	}
}

// two function-local types with the same name (and package path): one without validation rules, one with
func bindLocalPlain() any {
	type payload struct {
		Name string `json:"name" form:"name"`
	}
	return &payload{}
}

func bindLocalRequired() any {
	type payload struct {
		Name string `json:"name" form:"name" validate:"required"`
	}
	return &payload{}
}

// malformed input yields an error and never a panic
func bindMalformed(s *Summary) {
	bindGating(s)
	// with the validator on and off: a decoding error is an error either way
	bindMalformedRun(s, "on")
	binding.DisableValidator()
	bindMalformedRun(s, "off")
	binding.ResetValidator()
}

func bindMalformedRun(s *Summary, validator string) {
	v := bindT{Age: 42, Name: "a&=é<", Ok: true, Tags: []string{"x", "y"}}
	try := func(method, media, body string, mustErr bool) {
		_, ctype := bodyFor(media, v)
		if media == "multipart/form-data" {
			ctype = media + "; boundary=BOUND"
		}
		target := "/b"
		if media == "query" {
			target, ctype = "/b?"+body, ""
			body = ""
		}
		var got bindT
		err, pan := safeBind(func() error { return binding.Auto(mkReq(method, target, body, ctype), &got) })
		s.Compared++
		s.addInfo("malformed_inputs", 1)
		if pan != nil {
			s.mismatch(map[string]any{"kind": "bind", "aspect": "malformed", "what": fmt.Sprintf("%s body %q (%s, validator %s): panicked: %v", method, body+target, media, validator, pan)}, nil)
		} else if mustErr && err == nil {
			s.mismatch(map[string]any{"kind": "bind", "aspect": "malformed", "what": fmt.Sprintf("%s malformed body %q (%s, validator %s) was bound without error: %+v", method, body+target, media, validator, got)}, nil)
		}
	}
	for _, media := range []string{"application/json", "text/xml", "application/xml"} {
		full, _ := bodyFor(media, v)
		for i := 0; i < len(full); i++ { // every proper prefix of a valid encoding must be an error
			try("POST", media, full[:i], true)
		}
	}
	garbage := []string{"%zz=1", "tags[-1]=x", "tags[9999999999]=x", "name[0]=x", "age=abc", "ok=maybe", "=", "&&&", "tags[]=x", "tags[a]=x",
		"age[0]=1", "tags[0][0]=x", "tags.0=x", "a=%", "\xff\xfe=\xff", "age=99999999999999999999", "tags[1]=only", "[", "]=", "tags[-0]=x", "tags[ 1]=x"}
	// keys/values that cannot be decoded into the struct at all: these must be reported as an error
	mustFail := map[string]bool{"%zz=1": true, "tags[-1]=x": true, "tags[9999999999]=x": true, "name[0]=x": true, "age=abc": true,
		"age=99999999999999999999": true}
	for _, g := range garbage {
		try("POST", "application/x-www-form-urlencoded", g, mustFail[g])
		try("GET", "query", g, mustFail[g] && g != "%zz=1") // URL.Query() drops undecodable pairs silently
		try("POST", "application/json", g, false)
		try("POST", "text/xml", g, false)
		mb := "--BOUND\r\nContent-Disposition: form-data; name=\"" + g + "\"\r\n\r\nv\r\n--BOUND--\r\n"
		try("POST", "multipart/form-data", mb, false)
	}
}
