package main

import (
	"bufio"
	"encoding/json"
	"errors"
	"fmt"
	"io"
	"net"
	"net/http"
	"net/http/httptest"
	"net/url"
	"reflect"
	"runtime"
	"runtime/debug"
	"sort"
	"strings"
	"time"

	"github.com/gookit/rux"
	"github.com/gookit/rux/pkg/handlers"
)

// family "pool": binds RuxPool (spec/RuxPool.tla) to the pooled contexts of a real router.
// A case is a request history; every request's FIRST handler (a global probe middleware) records what it can observe of
// its context; a second middleware performs the mutations. The observation of the last request must equal the pristine
// prediction of the model AND the observation of the same request on a freshly built twin router.
// Histories run on one locked OS thread with GC off so that sync.Pool really recycles (reuse is counted, not assumed).

type poolReq struct {
	Kind string   `json:"kind"`
	Muts []string `json:"muts"`
}

type poolCase struct {
	H      []poolReq      `json:"h"`
	Expect map[string]any `json:"expect"`
}

type poolObs struct {
	DataNil bool // Data() == nil: compared with the fresh twin only (the model speaks about keys)
	Data    []string
	Params  string
	Router  string
	Query   string
	Allowed string // the list of allowed methods a 405 request finds in its context
	App     string // the application's own handler slice, once given to SetHandlers: "own" as long as nobody else wrote into it
	Errors  int
	Aborted bool
	Status  int
	Length  int
	Resp    string
	Req     string
	Accept  string // what AcceptedTypes() says: "own" = the types of THIS request's Accept header
	// mutation "nested": what the handler finds in its context after it served another request on the same router
	AfterNested string
}

var poolReuse, poolRequests int

func init() {
	families["pool"] = &family{replay: poolReplay, finish: func(s *Summary) {
		s.info("requests", poolRequests)
		s.info("context_reuse_observed", poolReuse)
	}}
}

type poolRouter struct {
	r        *rux.Router
	cur      *poolReq
	obs      *poolObs
	w        http.ResponseWriter
	req      *http.Request
	other    *rux.Router
	appChain rux.HandlersChain
	ctxs     map[*rux.Context]bool
	last     *rux.Context
	// copies of earlier contexts kept by "background jobs" of their requests (mutation "copy"); every later request's
	// probe lets the jobs report on THEIR copies first, while the later request is in flight
	copies  []*rux.Context
	nesting bool // a nested request is being served: probe and mutator stay out of it
}

func newPoolRouter(hook, caching bool) *poolRouter {
	pr := &poolRouter{ctxs: map[*rux.Context]bool{}}
	opts := []func(*rux.Router){rux.HandleMethodNotAllowed}
	if caching {
		opts = append(opts, cachingOpts(8)...)
	}
	r := newRouter(opts...)
	pr.r = r
	r.Use(func(c *rux.Context) { // the probe: first handler of every request
		if pr.nesting {
			return
		}
		for _, cp := range pr.copies {
			cp.AbortWithStatus(500)
		}
		o := &poolObs{DataNil: c.Data() == nil, Errors: len(c.Errors), Aborted: c.IsAborted(), Status: c.StatusCode(), Length: c.Length()}
		for k := range c.Data() {
			switch k {
			case rux.CTXCurrentRouteName, rux.CTXCurrentRoutePath:
				k = "_route"
			case rux.CTXAllowedMethods:
				k = "_allowed"
			}
			dup := false
			for _, x := range o.Data {
				dup = dup || x == k
			}
			if !dup {
				o.Data = append(o.Data, k)
			}
		}
		sort.Strings(o.Data)
		switch {
		case c.Params == nil || len(c.Params) == 0:
			o.Params = "none"
		case len(c.Params) == 1 && c.Params["id"] == "7":
			o.Params = "own"
		default:
			o.Params = fmt.Sprintf("dirty%v", c.Params)
		}
		o.Resp = "own"
		if c.RawWriter() != pr.w {
			o.Resp = "replaced"
		}
		if _, foreign := c.Resp.(*httptest.ResponseRecorder); foreign {
			o.Resp = "replaced"
		}
		o.Req = "cur"
		if c.Req != pr.req {
			o.Req = "replaced"
		}
		o.Router = "own"
		if c.Router() != pr.r && !(pr.cur.Kind == "foreign" && c.Router() == nil) { // (a context the caller built has no router: outside C10)
			o.Router = "foreign"
		}
		if al, ok := c.SafeGet(rux.CTXAllowedMethods).([]string); ok {
			cp := append([]string{}, al...)
			sort.Strings(cp)
			o.Allowed = strings.Join(cp, ",")
		}
		o.App = "own"
		for _, h := range pr.appChain[:cap(pr.appChain)][1:] {
			if h != nil {
				o.App = "written by the router"
			}
		}
		o.Accept = "own"
		if at := c.AcceptedTypes(); len(at) != 2 || at[0] != "text/x-req" || at[1] != "application/json" {
			o.Accept = fmt.Sprintf("other%v", at)
		}
		o.Query = "own"
		if qv := c.QueryValues(); c.Query("token") != "t" || len(qv["limit"]) != 0 || len(qv) != 1 {
			o.Query = fmt.Sprintf("dirty%v", qv)
		}
		pr.obs = o
		pr.last = c
	})
	r.Use(func(c *rux.Context) { // the mutator
		if pr.nesting {
			return
		}
		for _, m := range pr.cur.Muts {
			switch m {
			case "set":
				c.Set("k", "v")
			case "params":
				if c.Params != nil { // write into the map the router handed out, then replace it
					c.Params["dirty"] = "1"
				}
				c.Params = rux.Params{"dirty": "1", "id": "x"}
			case "error":
				c.AddError(errors.New("e"))
			case "abort":
				c.Abort()
			case "write":
				c.SetStatus(201)
				c.WriteString("abc")
			case "resp":
				c.Resp = httptest.NewRecorder()
			case "hijack":
				if hj, ok := c.Resp.(http.Hijacker); ok {
					_, _, _ = hj.Hijack()
				}
			case "req":
				c.Req = c.Req.Clone(c.Req.Context())
			case "allowed":
				// the handler edits the list of allowed methods it finds in its context (its request's data)
				if al, ok := c.SafeGet(rux.CTXAllowedMethods).([]string); ok && len(al) > 0 {
					al[0] = "EDITED"
				}
			case "sethandlers":
				c.SetHandlers(pr.appChain) // the application swaps in a chain of its own (a long-lived slice with spare capacity)
			case "renderfail":
				_ = c.Render(200, "bad", nil) // the template fails half way through
			case "query":
				qv := c.QueryValues() // the handler's own copy to edit (eg to build the link to the next page)
				qv.Set("limit", "10")
				qv.Del("token")
			case "datawrite":
				// the handler writes through the map Data() hands out (its request's data), without calling Set first
				if d := c.Data(); d != nil {
					d["k2"] = "v2"
				}
			case "copy":
				// a middleware wraps the writer for its request; the handler hands a copy of the context to a background job
				c.Resp = &tagWriter{ResponseWriter: c.Resp, tag: "[job]"}
				pr.copies = append(pr.copies, c.Copy())
			case "linger":
				// the handler takes its time; what it finds in its context afterwards is still what IT put there
				time.Sleep(40 * time.Millisecond)
				ks := []string{}
				for k := range c.Data() {
					if !strings.HasPrefix(k, "_") {
						ks = append(ks, k)
					}
				}
				sort.Strings(ks)
				pr.obs.AfterNested = fmt.Sprintf("after a pause: data %v errors %d length %d", ks, len(c.Errors), c.Length())
			case "nested":
				// the handler serves another request on the same router (a sub-request) and goes on with its own context
				pr.nesting = true
				func() {
					defer func() { _ = recover(); pr.nesting = false }()
					pr.r.ServeHTTP(httptest.NewRecorder(), &http.Request{Method: "GET", URL: &url.URL{Path: "/d/9", RawQuery: "token=nested"}, Header: http.Header{}, Proto: "HTTP/1.1"})
				}()
				pr.obs.AfterNested = fmt.Sprintf("own request=%v own writer=%v token=%q status=%d", c.Req == pr.req, c.RawWriter() == pr.w, c.Query("token"), c.StatusCode())
			case "delegate":
				pr.other.HandleContext(c) // another router dispatches the request on this context
			}
		}
	})
	pr.appChain = make(rux.HandlersChain, 1, 8)
	pr.appChain[0] = func(c *rux.Context) {}
	r.Renderer = poolRenderer{}
	r.GET("/r", func(c *rux.Context) { _ = c.Render(200, "ok", nil) })
	pr.other = rux.New()
	pr.other.Any("/{all}", func(c *rux.Context) { c.Set("other", 1) })
	boom := func(c *rux.Context) { panic("boom") }
	r.GET("/s", func(c *rux.Context) { c.WriteString("s") })
	r.GET("/d/{id}", func(c *rux.Context) { c.WriteString("d" + c.Param("id")) })
	r.GET("/o[.html]", func(c *rux.Context) { c.WriteString("o") }) // matched by regex, no variables
	r.POST("/p", func(c *rux.Context) {})
	r.GET("/boom", boom)
	// a slow handler behind the library's Timeout middleware: it overruns the deadline and goes on using its context
	r.GET("/slow", func(c *rux.Context) {
		time.Sleep(15 * time.Millisecond)
		c.Set("late", 1)
		c.AddError(errors.New("late"))
		c.WriteString("SLOW")
	}, handlers.Timeout(2*time.Millisecond))
	// a handler that re-dispatches its request (Router.HandleContext) to a static route / to the panicking route, behind a
	// route-level recover middleware
	recoverMw := func(c *rux.Context) {
		defer func() {
			if rec := recover(); rec != nil {
				c.AbortWithStatus(500) // (the chain of the context is the re-dispatched one by now: stop it)
			}
		}()
		c.Next()
	}
	r.GET("/rd", func(c *rux.Context) {
		c.Req.URL.Path = "/s"
		c.Router().HandleContext(c)
		c.Abort()
	}, recoverMw)
	r.GET("/rp", func(c *rux.Context) {
		c.Req.URL.Path = "/boom"
		c.Router().HandleContext(c)
		c.Abort()
	}, recoverMw)
	if hook {
		r.OnPanic = func(c *rux.Context) { c.SetStatus(500) }
	}
	return pr
}

// poolRenderer: template "ok" renders a page, template "bad" writes half a page and fails
type poolRenderer struct{}

func (poolRenderer) Render(w io.Writer, name string, _ any, _ *rux.Context) error {
	if name == "bad" {
		_, _ = io.WriteString(w, "<h1>half a page of another request")
		return errors.New("template failed")
	}
	_, err := io.WriteString(w, "<p>ok</p>")
	return err
}

func (pr *poolRouter) serve(q *poolReq) (obs *poolObs, code int, body string) {
	path := map[string]string{"static": "/s", "dynamic": "/d/7", "optional": "/o", "render": "/r", "notfound": "/missing", "notallowed": "/p", "panic": "/boom",
		"panichook": "/boom", "foreign": "/s", "redispatch": "/rd", "redispanic": "/rp", "slowtimeout": "/slow"}[q.Kind]
	w := httptest.NewRecorder()
	var rw http.ResponseWriter = w
	for _, m := range q.Muts {
		if m == "hijack" {
			rw = &hijackableRecorder{w}
		}
	}
	req := &http.Request{Method: "GET", URL: &url.URL{Path: path, RawQuery: "token=t"}, Header: http.Header{"Accept": {"text/x-req, application/json;q=0.8"}}, Proto: "HTTP/1.1"}
	pr.cur, pr.obs, pr.w, pr.req = q, nil, rw, req
	func() {
		defer func() { _ = recover() }()
		if q.Kind == "foreign" {
			c := &rux.Context{}
			c.Init(rw, req)
			pr.r.HandleContext(c)
		} else {
			pr.r.ServeHTTP(rw, req)
		}
	}()
	poolRequests++
	if pr.last != nil {
		if pr.ctxs[pr.last] {
			poolReuse++
		}
		pr.ctxs[pr.last] = true
	}
	return pr.obs, w.Code, w.Body.String()
}

var poolRepeated bool

// poolRepeat: one kind of request REPEATED (counters, thresholds and whatever else accumulates in a recycled context show
// only after several requests of one kind), then one request of every kind, compared with the fresh twin
func poolRepeat(s *Summary) {
	kinds := []string{"static", "dynamic", "optional", "render", "notfound", "notallowed", "panic", "panichook", "redispatch", "redispanic"}
	{
		// a request whose handler overran the deadline of the Timeout middleware, then a request that takes its time: when
		// ServeHTTP has returned, nothing of the first request is still running on the context
		pv := newPoolRouter(false, false)
		pv.serve(&poolReq{Kind: "slowtimeout"})
		last := poolReq{Kind: "static", Muts: []string{"linger"}}
		o2, c2, b2 := pv.serve(&last)
		o3, c3, b3 := newPoolRouter(false, false).serve(&last)
		s.Compared++
		if (o2 == nil) != (o3 == nil) || (o2 != nil && !reflect.DeepEqual(*o2, *o3)) || c2 != c3 || b2 != b3 {
			s.mismatch(map[string]any{"kind": "pool", "aspect": "pristine", "what": fmt.Sprintf(
				"history: a request whose handler overruns the deadline of handlers.Timeout, then a request that takes 40 ms: the last request observed %+v -> %d %q; on a fresh identical router %+v -> %d %q",
				o2, c2, b2, o3, c3, b3)}, nil)
		}
	}
	for _, hook := range []bool{false, true} {
		for _, x := range kinds {
			for _, y := range kinds {
				if (x == "panichook" || y == "panichook") != hook { // (the hook is installed exactly where a history needs it)
					continue
				}
				for _, reps := range []int{2, 7} {
					pv := newPoolRouter(hook, false)
					for i := 0; i < reps; i++ {
						pv.serve(&poolReq{Kind: x})
					}
					last := poolReq{Kind: y}
					o2, c2, b2 := pv.serve(&last)
					o3, c3, b3 := newPoolRouter(hook, false).serve(&last)
					s.Compared++
					if (o2 == nil) != (o3 == nil) || (o2 != nil && !reflect.DeepEqual(*o2, *o3)) || c2 != c3 || b2 != b3 {
						s.mismatch(map[string]any{"kind": "pool", "aspect": "pristine", "what": fmt.Sprintf(
							"history: %d requests of kind %s, then one of kind %s (OnPanic hook installed: %v): the last request observed %+v -> %d %q; on a fresh identical router %+v -> %d %q",
							reps, x, y, hook, o2, c2, b2, o3, c3, b3)}, nil)
						return
					}
				}
			}
		}
	}
}

func poolReplay(s *Summary, raw json.RawMessage) {
	var c poolCase
	if err := json.Unmarshal(raw, &c); err != nil {
		fatal("bad pool case: %v", err)
	}
	s.sample(c)
	runtime.LockOSThread()
	defer runtime.UnlockOSThread()
	old := debug.SetGCPercent(-1)
	defer debug.SetGCPercent(old)
	if !poolRepeated {
		poolRepeated = true
		poolRepeat(s)
	}
	hook := false
	for _, q := range c.H {
		hook = hook || q.Kind == "panichook"
	}
	// histories that end in a request for a dynamic route run on a CACHING router: what an earlier handler did to the
	// parameters it was given must not be what the route cache hands to the next request of that URL
	lastKind := c.H[len(c.H)-1].Kind
	caching := lastKind == "dynamic" || lastKind == "optional" || lastKind == "notallowed"
	pr := newPoolRouter(hook, caching)
	var obs *poolObs
	var code int
	var body string
	for i := range c.H {
		obs, code, body = pr.serve(&c.H[i])
	}
	lastReq := c.H[len(c.H)-1]
	twinObs, twinCode, twinBody := newPoolRouter(hook, caching).serve(&lastReq)
	s.Compared++
	// mutations that leave nothing in the MODEL's context do not make a model state of their own, so the exported
	// histories (one per model state and step) need not contain them in front of every kind of request. For the short
	// histories each of them is therefore added to the first request and the last request is compared with the fresh twin.
	if len(c.H) == 2 {
		for _, latent := range []string{"renderfail", "sethandlers", "query", "delegate", "params", "allowed", "copy", "datawrite"} {
			first := c.H[0]
			first.Muts = append(append([]string{}, first.Muts...), latent)
			pv := newPoolRouter(hook, caching)
			pv.serve(&first)
			o2, c2, b2 := pv.serve(&lastReq)
			s.Compared++
			if o2 == nil || twinObs == nil || !reflect.DeepEqual(*o2, *twinObs) || c2 != twinCode || b2 != twinBody {
				s.mismatch(map[string]any{"kind": "pool", "aspect": "pristine", "what": fmt.Sprintf(
					"history [%v %v]: last request observed %+v -> %d %q; on a fresh identical router %+v -> %d %q", first, lastReq, o2, c2, b2, twinObs, twinCode, twinBody)}, c)
				return
			}
		}
	}
	if len(c.H) == 2 {
		// two requests in flight at once: the last request serves a nested request from its handler
		lastN := lastReq
		lastN.Muts = append(append([]string{}, lastReq.Muts...), "nested")
		pv := newPoolRouter(hook, caching)
		pv.serve(&c.H[0])
		o2, c2, b2 := pv.serve(&lastN)
		o3, c3, b3 := newPoolRouter(hook, caching).serve(&lastN)
		s.Compared++
		if o2 == nil || o3 == nil || !reflect.DeepEqual(*o2, *o3) || c2 != c3 || b2 != b3 {
			s.mismatch(map[string]any{"kind": "pool", "aspect": "pristine", "what": fmt.Sprintf(
				"history [%v %v]: last request (it serves a nested request) observed %+v -> %d %q; on a fresh identical router %+v -> %d %q", c.H[0], lastN, o2, c2, b2, o3, c3, b3)}, c)
			return
		}
	}
	hist := fmt.Sprintf("%v", c.H)
	desc := func(what string) map[string]any {
		return map[string]any{"kind": "pool", "aspect": "pristine", "what": "history " + hist + ": " + what}
	}
	if obs == nil || twinObs == nil {
		s.mismatch(desc("the probe middleware did not run"), c)
		return
	}
	// against the model
	want := poolObs{Params: c.Expect["params"].(string), Errors: int(c.Expect["errors"].(float64)), Aborted: c.Expect["aborted"].(bool),
		Status: int(c.Expect["status"].(float64)), Length: int(c.Expect["length"].(float64)), Resp: c.Expect["resp"].(string), Req: c.Expect["req"].(string),
		Router: c.Expect["router"].(string), Query: c.Expect["query"].(string), App: "own", Accept: c.Expect["accept"].(string)}
	for _, k := range c.Expect["data"].([]any) {
		want.Data = append(want.Data, k.(string))
	}
	sort.Strings(want.Data)
	want.DataNil = obs.DataNil
	want.Allowed = obs.Allowed // (judged against the fresh twin below)
	if !reflect.DeepEqual(*obs, want) {
		s.mismatch(desc(fmt.Sprintf("the first handler of the last request observed %+v, pristine is %+v", *obs, want)), c)
		return
	}
	if !reflect.DeepEqual(*obs, *twinObs) || code != twinCode || body != twinBody {
		s.mismatch(desc(fmt.Sprintf("last request observed %+v -> %d %q; on a fresh identical router %+v -> %d %q", *obs, code, body, *twinObs, twinCode, twinBody)), c)
	}
}

// hijackableRecorder: a ResponseRecorder whose connection can be "hijacked" (nothing is really taken over)
type hijackableRecorder struct{ *httptest.ResponseRecorder }

func (h *hijackableRecorder) Hijack() (net.Conn, *bufio.ReadWriter, error) { return nil, nil, nil }
