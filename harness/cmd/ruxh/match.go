package main

import (
	"encoding/json"
	"fmt"
	"math/rand"
	"net/http"
	"net/http/httptest"
	"net/url"
	"os"
	"sort"
	"strconv"
	"strings"
	"sync"

	"github.com/gookit/rux"
)

// family "match": binds RuxIndex / RuxPattern (spec/RuxIndex.tla, spec/RuxPattern.tla) to Router.Add + Router.Match.
//
// Input lines (exported by MC_Index):
//   {"hdr":1,"pool":[rux pattern text],"names":[[var names]],"paths":[[chars]],"methods":[..]}
//   {"pat":i,"cells":[{"q":q,"b":[ binding, ... ]}]}   binding = [[name,[chars]],...]   (all admissible decompositions)
//   {"t":[{"p":i,"ms":[methods]}],"hits":{"GET":[[q,sel],...]}}    every (method,q) not listed selects no route
//
// For every table the real router is built three ways (plain, caching with a tiny capacity, caching with a big
// capacity) and EVERY (method, path) cell is looked up; on the caching routers twice (miss, then hit).

type matchHdr struct {
	Pool    []string   `json:"pool"`
	Names   [][]string `json:"names"`
	Paths   [][]string `json:"paths"`
	Methods []string   `json:"methods"`
	Strict  bool       `json:"strict"`
}

type matchCell struct {
	Q int        `json:"q"`
	B [][][2]any `json:"b"`
}

type matchTableEntry struct {
	P  int      `json:"p"`
	Ms []string `json:"ms"`
}

type matchTable struct {
	T    []matchTableEntry   `json:"t"`
	Hits map[string][][2]int `json:"hits"`
}

type matchState struct {
	hdr   matchHdr
	paths []string
	// mat[pat][q] = admissible bindings (each a map name->value)
	mat  []map[int][]map[string]string
	jobs chan matchTable
	wg   sync.WaitGroup
	sum  *Summary
	mu   sync.Mutex
}

var matchSt = &matchState{}

// VERIF_MATCH_ENCODED=1: the routers use UseEncodedPath and the paths of the model are ESCAPED paths ('%' is a character
// like any other for the router); the served pass sends them as URL.RawPath. Parameters are the escaped substrings.
var matchEncoded = os.Getenv("VERIF_MATCH_ENCODED") == "1"

// VERIF_MATCH_STRICT=1: the routers use StrictLastSlash; the model takes paths literally, which is what strict routers do
var matchStrict = os.Getenv("VERIF_MATCH_STRICT") == "1"

// VERIF_MATCH_MAY_REJECT=1: the patterns lie outside the documented grammar (capturing groups inside a variable's regex);
// registration may refuse them (nothing is selected then), but a route that IS accepted must report the right parameters
var matchMayReject = os.Getenv("VERIF_MATCH_MAY_REJECT") == "1"

func init() {
	families["match"] = &family{replay: matchReplay, finish: matchFinish}
}

func joinChars(v any) string {
	arr, _ := v.([]any)
	var sb strings.Builder
	for _, c := range arr {
		sb.WriteString(c.(string))
	}
	return sb.String()
}

func matchReplay(s *Summary, raw json.RawMessage) {
	st := matchSt
	var probe map[string]json.RawMessage
	if err := json.Unmarshal(raw, &probe); err != nil {
		fatal("bad match line: %v", err)
	}
	switch {
	case probe["hdr"] != nil:
		if err := json.Unmarshal(raw, &st.hdr); err != nil {
			fatal("bad hdr: %v", err)
		}
		st.paths = make([]string, len(st.hdr.Paths)+1)
		for i, p := range st.hdr.Paths {
			st.paths[i+1] = strings.Join(p, "")
		}
		st.mat = make([]map[int][]map[string]string, len(st.hdr.Pool)+1)
		st.sum = s
		s.Cases--
	case probe["pat"] != nil:
		var pl struct {
			Pat   int         `json:"pat"`
			Cells []matchCell `json:"cells"`
		}
		if err := json.Unmarshal(raw, &pl); err != nil {
			fatal("bad pat line: %v", err)
		}
		m := map[int][]map[string]string{}
		for _, c := range pl.Cells {
			for _, b := range c.B {
				bm := map[string]string{}
				for _, nv := range b {
					bm[nv[0].(string)] = joinChars(nv[1])
				}
				m[c.Q] = append(m[c.Q], bm)
			}
		}
		st.mat[pl.Pat] = m
		s.Cases--
	case probe["stat"] != nil:
		var v map[string]any
		json.Unmarshal(raw, &v)
		s.info("matrix", v)
		s.Cases--
	case probe["t"] != nil:
		var t matchTable
		if err := json.Unmarshal(raw, &t); err != nil {
			fatal("bad table line: %v", err)
		}
		if st.jobs == nil {
			st.jobs = make(chan matchTable, 64)
			for w := 0; w < 16; w++ {
				st.wg.Add(1)
				go func() {
					defer st.wg.Done()
					for j := range st.jobs {
						matchRunTable(st, j)
					}
				}()
			}
		}
		if len(s.Samples) < 2 {
			texts := []string{}
			for _, e := range t.T {
				texts = append(texts, strings.Join(e.Ms, ",")+" "+st.hdr.Pool[e.P-1])
			}
			s.sample(map[string]any{"table": texts, "selecting_cells": len(t.Hits[st.hdr.Methods[0]])})
		}
		st.jobs <- t
	default:
		s.Cases--
	}
}

func matchFinish(s *Summary) {
	st := matchSt
	if st.jobs != nil {
		close(st.jobs)
		st.wg.Wait()
	}
	s.info("paths", len(st.paths)-1)
	s.info("pool", len(st.hdr.Pool))
	if n, _ := strconv.Atoi(os.Getenv("VERIF_MATCH_MANY")); n > 0 {
		matchMany(s, n)
	}
	if os.Getenv("VERIF_MATCH_CONC") == "1" {
		matchConcurrent(s)
	}
}

// matchConcurrent: selection is a function of the table and the request - also when many lookups run at the same time
// (lookups are read-only; routes with paths of different lengths, static and dynamic, with and without a cache)
func matchConcurrent(s *Summary) {
	for _, opts := range [][]func(*rux.Router){{}, {rux.CachingWithNum(3)}} {
		r := newRouter(opts...)
		paths := []string{"/s", "/page3", "/page7", "/a/longer/static/path", "/x/y"}
		want := map[string]string{}
		for _, p := range paths {
			r.GET(p, nopHandler)
			want[p] = p
		}
		r.GET("/{one}", nopHandler)
		r.GET("/d/{id}/e", nopHandler)
		want["/other"], want["/d/7/e"], want["/d/12345/e"], want["/nope/x/y/z"] = "/{one}", "/d/{id}/e", "/d/{id}/e", ""
		var keys []string
		for k := range want {
			keys = append(keys, k)
		}
		sort.Strings(keys)
		var wg sync.WaitGroup
		var mu sync.Mutex
		bad := ""
		for g := 0; g < 8; g++ {
			wg.Add(1)
			go func(g int) {
				defer wg.Done()
				for i := 0; i < 20000; i++ {
					k := keys[(i*7+g*3)%len(keys)]
					rt, _, _ := r.Match("GET", k)
					got := ""
					if rt != nil {
						got = rt.Path()
					}
					if got != want[k] {
						mu.Lock()
						if bad == "" {
							bad = fmt.Sprintf("GET %s selected %q while 8 goroutines look routes up, alone it selects %q", k, got, want[k])
						}
						mu.Unlock()
						return
					}
				}
			}(g)
		}
		wg.Wait()
		s.Compared += 8 * 20000
		if bad != "" {
			s.mismatch(map[string]any{"kind": "match", "aspect": "selection", "what": bad}, nil)
		}
	}
}

// matchMany: very many DISTINCT URLs on a router whose cache is as large as it can be (the model's path universe is small;
// whatever the cache does with a key must hold for keys it has not been tried with): every lookup, on the miss and
// on the repeat, selects the route of its pattern with the values of ITS path
func matchMany(s *Summary, n int) {
	r := newRouter(rux.CachingWithNum(65535))
	r.GET("/u/{id}", nopHandler)
	r.GET("/p/{a}/x/{b}", nopHandler)
	bad := 0
	for i := 0; i < n && bad < 3; i++ {
		id := "k" + strconv.FormatInt(int64(i)*2654435761%1000000007, 36)
		for pass := 0; pass < 2; pass++ {
			path, want := "/u/"+id, map[string]string{"id": id}
			if i%3 == 2 {
				path, want = "/p/"+id+"/x/"+strconv.Itoa(i), map[string]string{"a": id, "b": strconv.Itoa(i)}
			}
			rt, ps, _ := r.Match("GET", path)
			s.Compared++
			wantPath := "/u/{id}"
			if i%3 == 2 {
				wantPath = "/p/{a}/x/{b}"
			}
			if rt == nil || rt.Path() != wantPath || !paramsEqual(ps, want) {
				bad++
				got := "no route"
				if rt != nil {
					got = rt.Path()
				}
				s.mismatch(map[string]any{"kind": "params", "aspect": "params", "what": fmt.Sprintf(
					"GET %s (URL #%d of %d distinct URLs on a router with a 65535-entry cache, pass %d): selected %s with params %v, expected %s with %v", path, i+1, n, pass+1, got, ps, wantPath, want)}, nil)
				break
			}
		}
	}
	s.info("many_distinct_urls", n)
}

// splitAtSegment cuts a route pattern at one of its top-level '/' (outside {..} and [..], not the first character):
// pattern == prefix + rest, rest starts with '/'. which selects the cut; ("", pattern) when there is none.
func splitAtSegment(pattern string, which int) (string, string) {
	var cuts []int
	depth := 0
	for i := 0; i < len(pattern); i++ {
		switch pattern[i] {
		case '{', '[', '(':
			depth++
		case '}', ']', ')':
			depth--
		case '/':
			if depth == 0 && i > 0 && pattern[i-1] != '/' && i < len(pattern)-1 {
				cuts = append(cuts, i)
			}
		}
	}
	if len(cuts) == 0 {
		return "", pattern
	}
	c := cuts[which%len(cuts)]
	return pattern[:c], pattern[c:]
}

func paramsEqual(ps rux.Params, b map[string]string) bool {
	if len(ps) != len(b) {
		return false
	}
	for k, v := range b {
		if got, ok := ps[k]; !ok || got != v {
			return false
		}
	}
	return true
}

func (st *matchState) report(desc map[string]any, c any) {
	st.mu.Lock()
	st.sum.mismatch(desc, c)
	st.mu.Unlock()
}

func matchRunTable(st *matchState, t matchTable) {
	texts := make([]string, len(t.T))
	for i, e := range t.T {
		texts[i] = strings.Join(e.Ms, ",") + " " + st.hdr.Pool[e.P-1]
	}
	caseDoc := map[string]any{"table": texts}
	type built struct {
		name   string
		r      *rux.Router
		routes []*rux.Route
		passes int
		// what the handler of the selected route saw (served pass)
		seenRoute  int
		seenParams map[string]string
		seenCount  int
	}
	mk := func(name string, passes int, opts ...func(*rux.Router)) *built {
		b := &built{name: name, passes: passes}
		if st.hdr.Strict || matchStrict {
			opts = append(opts, rux.StrictLastSlash)
		}
		if matchEncoded {
			opts = append(opts, rux.UseEncodedPath)
		}
		b.r = newRouter(opts...)
		for i, e := range t.T {
			func() {
				defer func() {
					if rec := recover(); rec != nil {
						b.routes = append(b.routes, nil)
						if matchMayReject {
							st.mu.Lock()
							st.sum.addInfo("registration_refused", 1)
							st.mu.Unlock()
							return
						}
						b.routes = b.routes[:len(b.routes)-1]
						st.report(map[string]any{"kind": "match", "aspect": "registration-panic", "table": texts, "route": texts[i],
							"what": fmt.Sprintf("registration of %s panicked: %v", texts[i], rec)}, caseDoc)
						b.routes = append(b.routes, nil)
					}
				}()
				tag := fmt.Sprintf("r%d", i+1)
				idx := i + 1
				// (one of the caching routers gets ALL its routes as route objects attached with AttachTo)
				add := func(h rux.HandlerFunc) *rux.Route {
					if name == "cache1" || name == "served-cache" {
						rt := rux.NewNamedRoute(tag, st.hdr.Pool[e.P-1], h, e.Ms...)
						rt.AttachTo(b.r)
						return rt
					}
					if name == "grouped" {
						// the same pattern written as a group prefix plus the rest of the path: the table entry is the JOINED pattern
						if pre, rest := splitAtSegment(st.hdr.Pool[e.P-1], i); pre != "" {
							var rt *rux.Route
							b.r.Group(pre, func() { rt = b.r.AddNamed(tag, rest, h, e.Ms...) })
							return rt
						}
					}
					return b.r.AddNamed(tag, st.hdr.Pool[e.P-1], h, e.Ms...)
				}
				b.routes = append(b.routes, add(func(c *rux.Context) {
					if tp := c.Req.Header.Get("X-Redisp-Path"); tp != "" {
						// internal redirect: rewrite the request and dispatch it again on the same context
						c.Req.Header.Del("X-Redisp-Path")
						c.Req.Method = c.Req.Header.Get("X-Redisp-Method")
						c.Req.URL.Path = tp
						c.Router().HandleContext(c)
						return
					}
					b.seenRoute, b.seenCount = idx, b.seenCount+1
					b.seenParams = map[string]string{}
					for k, v := range c.Params {
						b.seenParams[k] = v
					}
					if c.Params != nil { // the map is the request's own: what the handler adds to it is gone with the request
						c.Params["added-by-handler"] = "1"
					}
				}))
			}()
		}
		return b
	}
	routers := []*built{mk("plain", 1), mk("cache1", 2, rux.CachingWithNum(1)), mk("cache1000", 2, rux.EnableCaching), mk("grouped", 1)}
	cells, compared := 0, 0
	// the views of the table (Routes(), also after lookups have been served): every registered route once per method it was
	// registered for, nothing lost, nothing twice (RuxIndex.ListingOK)
	listing := func(b *built, when string) {
		got := map[string]int{}
		for _, ri := range b.r.Routes() {
			got[ri.Name+" "+ri.Path]++
		}
		for i, e := range t.T {
			if i >= len(b.routes) || b.routes[i] == nil {
				continue
			}
			k := b.routes[i].Name() + " " + b.routes[i].Path()
			if got[k] != len(e.Ms) {
				st.report(map[string]any{"kind": "match", "aspect": "listing", "table": texts, "router": b.name,
					"what": fmt.Sprintf("Routes() of the router with the table %v (%s, %s) lists route %s %d time(s), it was registered for %d method(s) %v", texts, b.name, when, texts[i], got[k], len(e.Ms), e.Ms)}, caseDoc)
				return
			}
			delete(got, k)
		}
		if len(got) != 0 {
			st.report(map[string]any{"kind": "match", "aspect": "listing", "table": texts, "router": b.name,
				"what": fmt.Sprintf("Routes() of the router with the table %v (%s, %s) lists routes nobody registered: %v", texts, b.name, when, got)}, caseDoc)
		}
	}
	for _, b := range routers {
		listing(b, "before any lookup")
	}
	// two sweeps over all cells: in the second one every dynamic cell of the big cache is a hit that is NOT preceded by
	// its own miss (entries of one route must not share parameters), and the small cache has evicted everything
	for sweep := 0; sweep < 2; sweep++ {
		for _, m := range st.hdr.Methods {
			exp := map[int]int{}
			if m == "HEAD" { // Router.Match resolves like a request: a HEAD lookup that selects nothing falls back to the GET routes
				for _, h := range t.Hits["GET"] {
					exp[h[0]] = h[1]
				}
			}
			for _, h := range t.Hits[m] {
				if h[1] != 0 {
					exp[h[0]] = h[1]
				}
			}
			for q := 1; q < len(st.paths); q++ {
				path := st.paths[q]
				want := exp[q]
				cells++
				for _, b := range routers {
					if sweep == 1 && b.name == "plain" {
						continue
					}
					for pass := 0; pass < b.passes-sweep; pass++ {
						var route *rux.Route
						var ps rux.Params
						panicked := any(nil)
						func() {
							defer func() { panicked = recover() }()
							route, ps, _ = b.r.Match(m, path)
						}()
						compared++
						if panicked != nil {
							st.report(map[string]any{"kind": "match", "aspect": "lookup-panic", "table": texts, "method": m, "path": path,
								"router": b.name, "what": fmt.Sprintf("Match panicked: %v", panicked)}, caseDoc)
							continue
						}
						got := 0
						if route != nil {
							for i, rt := range b.routes {
								if rt != nil && (rt == route || (rt.Name() == route.Name() && rt.Path() == route.Path())) {
									got = i + 1
									break
								}
							}
							if got == 0 {
								got = -1
							}
						}
						if got == want && b.name == "plain" && !st.hdr.Strict && !matchStrict && !matchEncoded && path != "/" {
							// the same request spelled with a doubled leading slash or a trailing slash (lookup normalises both away)
							// or with white space around it (every Unicode space is trimmed): same route, same parameters
							for _, alt := range []string{"/" + path, path + "/", "//" + path + "//", path + " ", path + "\u00a0", "\u2003" + path + "\t", path + "/\u3000"} {
								var r2 *rux.Route
								var ps2 rux.Params
								func() {
									defer func() { _ = recover() }()
									r2, ps2, _ = b.r.Match(m, alt)
								}()
								if r2 == route && route != nil && !paramsEqual(ps2, map[string]string(ps)) {
									st.report(map[string]any{"kind": "params", "aspect": "params", "table": texts, "method": m, "path": alt, "router": b.name,
										"what": fmt.Sprintf("%s %q on %v: params %v, but the same request spelled %q has params %v (both normalise to the same path)", m, alt, texts, ps2, path, ps)}, caseDoc)
									break
								}
								if r2 != route {
									st.report(map[string]any{"kind": "match", "aspect": "selection", "table": texts, "method": m, "path": alt, "router": b.name,
										"what": fmt.Sprintf("%s %s on %v: selects a different route than the same request spelled %s (route found: %v vs %v)", m, alt, texts, path, r2 != nil, route != nil)}, caseDoc)
									break
								}
							}
						}
						if got != want {
							gotTxt, wantTxt := "no route", "no route"
							if got > 0 {
								gotTxt = texts[got-1]
							}
							if want > 0 {
								wantTxt = texts[want-1]
							}
							aspect := "selection"
							if want == 0 {
								aspect = "unsound-match"
							} else if got == 0 {
								aspect = "lost-route"
							}
							st.report(map[string]any{"kind": "match", "aspect": aspect, "table": texts, "method": m, "path": path,
								"router": b.name, "pass": pass + 1 + 2*sweep, "got": gotTxt, "want": wantTxt,
								"what": fmt.Sprintf("%s %s on %v (%s, pass %d): code selects %q, C01 selects %q", m, path, texts, b.name, pass+1, gotTxt, wantTxt)}, caseDoc)
							continue
						}
						if want == 0 {
							continue
						}
						// C02: the parameters must be one of the admissible decompositions
						allowed := st.mat[t.T[want-1].P][q]
						okp := false
						for _, bnd := range allowed {
							if paramsEqual(ps, bnd) {
								okp = true
								break
							}
						}
						if !okp {
							st.report(map[string]any{"kind": "params", "aspect": "params", "table": texts, "method": m, "path": path,
								"router": b.name, "pass": pass + 1 + 2*sweep, "got": map[string]string(ps), "allowed": allowed,
								"what": fmt.Sprintf("%s %s -> %s (%s, pass %d): params %v not among the decompositions %v", m, path, texts[want-1], b.name, pass+1+2*sweep, ps, allowed)}, caseDoc)
						}
					}
				}
			}
		}
	}
	for _, b := range routers {
		listing(b, "after all lookups")
	}
	// HEAD first: on a caching router whose cache is still cold, a HEAD request for a GET route (twice: fallback, then
	// whatever the first one left behind) gets the route's parameters both times
	headIn := false
	for _, m := range st.hdr.Methods {
		headIn = headIn || m == "HEAD"
	}
	if !headIn {
		hb := mk("head-first-cache", 1, rux.EnableCaching)
		for _, h := range t.Hits["GET"] {
			q, want := h[0], h[1]
			if want <= 0 || q >= len(st.paths) || (matchMayReject && hb.routes[want-1] == nil) {
				continue
			}
			allowed := st.mat[t.T[want-1].P][q]
			for pass := 1; pass <= 2; pass++ {
				var ps rux.Params
				var rt *rux.Route
				func() {
					defer func() { _ = recover() }()
					rt, ps, _ = hb.r.Match("HEAD", st.paths[q])
				}()
				compared++
				okp := rt != nil
				if okp {
					okp = false
					for _, bnd := range allowed {
						okp = okp || paramsEqual(ps, bnd)
					}
				}
				if !okp {
					st.report(map[string]any{"kind": "params", "aspect": "params", "table": texts, "method": "HEAD", "path": st.paths[q], "router": hb.name, "pass": pass,
						"what": fmt.Sprintf("HEAD %s on %v (cold cache, pass %d): route found=%v params %v, expected the GET route %s with one of %v", st.paths[q], texts, pass, rt != nil, ps, texts[want-1], allowed)}, caseDoc)
					break
				}
			}
		}
	}
	// a route registered LATER (requests have been served already, the cache is warm): an exact static path still beats
	// every dynamic pattern from then on
	for _, b := range routers {
		done := false
		for _, h := range t.Hits["GET"] {
			q, want := h[0], h[1]
			if done || want <= 0 || q >= len(st.paths) || st.paths[q] == "/" {
				continue
			}
			if p := st.hdr.Pool[t.T[want-1].P-1]; !strings.ContainsAny(p, "{[") {
				continue // selected a static route already
			}
			done = true
			path := st.paths[q]
			var late, got *rux.Route
			func() {
				defer func() { _ = recover() }()
				b.r.Match("GET", path) // (warm)
				late = b.r.GET(path, nopHandler)
				got, _, _ = b.r.Match("GET", path)
			}()
			compared++
			if late != nil && got != late {
				st.report(map[string]any{"kind": "match", "aspect": "selection", "table": texts, "method": "GET", "path": path, "router": b.name,
					"what": fmt.Sprintf("GET %s on %v (%s) after the static route %s was registered later: it is not selected", path, texts, b.name, path)}, caseDoc)
			}
		}
	}
	// totality with odd method strings: the index is keyed by method + first path segment without a separator, so a method
	// string that is a proper prefix of a real method, with a path that supplies the missing letters, lands in a real bucket
	for _, m := range st.hdr.Methods {
		for _, h := range t.Hits[m] {
			q, want := h[0], h[1]
			if want <= 0 || q >= len(st.paths) || len(st.paths[q]) < 2 {
				continue
			}
			for cut := 0; cut < len(m); cut++ {
				odd, p := m[:cut], "/"+m[cut:]+st.paths[q][1:]
				var pan any
				func() {
					defer func() { pan = recover() }()
					routers[0].r.Match(odd, p)
				}()
				compared++
				if pan != nil {
					st.report(map[string]any{"kind": "match", "aspect": "lookup-panic", "table": texts, "method": odd, "path": p, "router": "plain",
						"what": fmt.Sprintf("Match(%q, %q) on %v panicked: %v", odd, p, texts, pan)}, caseDoc)
					break
				}
			}
		}
	}
	// served pass (C02 observes Context.Params inside handlers): every cell that selects a route is requested through
	// ServeHTTP, directly and as the target of an internal redirect (Router.HandleContext) issued by the handler of
	// the previously served cell; the handler of the selected route must see exactly the parameters of ITS match
	served := 0
	for _, b := range []*built{mk("served-plain", 1), mk("served-cache", 1, rux.CachingWithNum(3))} {
		prevM, prevPath := "", ""
		for _, m := range st.hdr.Methods {
			if m == "CONNECT" {
				continue
			}
			for _, h := range t.Hits[m] {
				q, want := h[0], h[1]
				if want <= 0 || q >= len(st.paths) || (matchMayReject && b.routes[want-1] == nil) {
					continue
				}
				path := st.paths[q]
				allowed := st.mat[t.T[want-1].P][q]
				for _, via := range []string{"direct", "redispatch"} {
					if via == "redispatch" && prevPath == "" {
						continue
					}
					req := &http.Request{Method: m, URL: &url.URL{Path: path}, Header: http.Header{}, Proto: "HTTP/1.1"}
					if matchEncoded {
						dec, err := url.PathUnescape(path)
						if err != nil || via == "redispatch" {
							continue // not a valid escaping: no client can send it
						}
						req.URL = &url.URL{Path: dec, RawPath: path}
						if req.URL.EscapedPath() != path {
							continue // net/url would re-encode it, the router never sees this spelling
						}
					}
					if via == "redispatch" {
						req = &http.Request{Method: prevM, URL: &url.URL{Path: prevPath}, Proto: "HTTP/1.1",
							Header: http.Header{"X-Redisp-Path": {path}, "X-Redisp-Method": {m}}}
					}
					b.seenRoute, b.seenParams, b.seenCount = 0, nil, 0
					panicked := any(nil)
					func() {
						defer func() { panicked = recover() }()
						b.r.ServeHTTP(httptest.NewRecorder(), req)
					}()
					served++
					okp := false
					for _, bnd := range allowed {
						okp = okp || paramsEqual(rux.Params(b.seenParams), bnd)
					}
					if panicked != nil || b.seenRoute != want || b.seenCount != 1 || !okp {
						st.report(map[string]any{"kind": "params", "aspect": "params", "table": texts, "method": m, "path": path,
							"router": b.name, "via": via, "got": b.seenParams, "allowed": allowed,
							"what": fmt.Sprintf("%s %s served by %v (%s, %s%s): the handler of route #%d ran %d time(s) with params %v (panic %v); expected route #%d %s with one of %v",
								m, path, texts, b.name, via, map[bool]string{true: " from " + prevM + " " + prevPath, false: ""}[via == "redispatch"],
								b.seenRoute, b.seenCount, b.seenParams, panicked, want, texts[want-1], allowed)}, caseDoc)
					}
				}
				prevM, prevPath = m, path
			}
		}
	}
	st.mu.Lock()
	st.sum.Compared += compared + served
	st.sum.addInfo("served", served)
	st.sum.addInfo("cells", cells/2)
	st.mu.Unlock()
}

// ---- family "matchrec": recorder for trace validation against spec/trace/TraceIndex.tla -------------------

func init() {
	families["matchrec"] = &family{record: matchRecord}
}

var nineMethods = []string{"GET", "POST", "PUT", "PATCH", "DELETE", "OPTIONS", "HEAD", "CONNECT", "TRACE"}

func randMethods(rng *rand.Rand) []string {
	switch rng.Intn(6) {
	case 0:
		return append([]string{}, nineMethods...)
	case 1, 2:
		return []string{"GET"}
	}
	n := 1 + rng.Intn(3)
	seen := map[string]bool{}
	out := []string{}
	for len(out) < n {
		m := nineMethods[rng.Intn(len(nineMethods))]
		if !seen[m] {
			seen[m] = true
			out = append(out, m)
		}
	}
	return out
}

func matchRecord(s *Summary, rng *rand.Rand, n int, out *traceWriter) {
	type entry struct {
		pat pattern
		ms  []string
		idx int
	}
	type scen struct{ routes []entry }
	pool := []string{}
	scens := make([]scen, n)
	for i := range scens {
		nr := 2 + rng.Intn(9)
		static := map[string]bool{}
		for len(scens[i].routes) < nr {
			p := genPattern(rng)
			ms := randMethods(rng)
			if p.isStatic() {
				clash := false
				for _, m := range ms {
					if static[m+p.render(true)] {
						clash = true
					}
				}
				if clash {
					continue
				}
				for _, m := range ms {
					static[m+p.render(true)] = true
				}
			}
			pool = append(pool, p.render(false))
			scens[i].routes = append(scens[i].routes, entry{p, ms, len(pool)})
		}
	}
	out.emit(map[string]any{"op": "hdr", "pool": pool})
	for _, sc := range scens {
		out.emit(map[string]any{"op": "reset"})
		opts := []func(*rux.Router){}
		if rng.Intn(2) == 0 {
			opts = append(opts, cachingOpts(1+rng.Intn(3))...)
		}
		r := newRouter(opts...)
		routes := []*rux.Route{}
		for i, e := range sc.routes {
			routes = append(routes, r.AddNamed(fmt.Sprintf("r%d", i+1), e.pat.render(true), nopHandler, e.ms...))
			out.emit(map[string]any{"op": "reg", "p": e.idx, "ms": e.ms, "text": e.pat.render(true)})
		}
		nq := 30 + rng.Intn(40)
		for q := 0; q < nq; q++ {
			e := sc.routes[rng.Intn(len(sc.routes))]
			path := e.pat.instantiate(rng)
			for rng.Intn(3) == 0 {
				path = mutatePath(rng, path)
			}
			path = normalPath(path)
			if len(path) > 16 {
				path = normalPath(path[:16])
			}
			m := e.ms[rng.Intn(len(e.ms))]
			if rng.Intn(4) == 0 {
				m = nineMethods[rng.Intn(9)]
			}
			route, ps, _ := r.Match(m, path)
			got := 0
			if route != nil {
				got = -1
				for i, rt := range routes {
					if rt == route || (rt.Name() == route.Name() && rt.Path() == route.Path()) {
						got = i + 1
						break
					}
				}
			}
			pl := [][2]any{}
			if got > 0 {
				for _, nme := range sc.routes[got-1].pat.names() {
					v, ok := ps[nme]
					if !ok {
						pl = append(pl, [2]any{"<missing:" + nme + ">", []string{}})
						continue
					}
					pl = append(pl, [2]any{nme, chars(v)})
				}
				for k := range ps {
					found := false
					for _, nme := range sc.routes[got-1].pat.names() {
						found = found || nme == k
					}
					if !found {
						pl = append(pl, [2]any{"<extra:" + k + ">", []string{}})
					}
				}
			}
			out.emit(map[string]any{"op": "match", "m": m, "path": chars(path), "got": got, "ps": pl, "p": path})
		}
		s.Cases++
	}
}
