package main

import (
	"encoding/json"
	"fmt"
	"net/http"
	"net/http/httptest"
	"net/url"
	"regexp"
	"strings"

	"github.com/gookit/rux"
)

// family "path": binds RuxPath (spec/RuxPath.tla) to Router.Add/Group (Route.Path()), Router.Match and ServeHTTP.

var tokenText = map[string]string{"SP": " ", "TAB": "\t", "NL": "\n", "NBSP": "\u00a0", "VT": "\v"}

func tokStr(toks []string) string {
	var sb strings.Builder
	for _, t := range toks {
		if v, ok := tokenText[t]; ok {
			sb.WriteString(v)
		} else {
			sb.WriteString(t)
		}
	}
	return sb.String()
}

type pathTextLine struct {
	P    []string            `json:"p"`
	Reg  map[string][]string `json:"reg"`
	Grp  map[string][][]any  `json:"grp"`
	Grp2 map[string][][]any  `json:"grp2"`
	Req  map[string][]string `json:"req"`
}

type pathURLLine struct {
	URL        []string                       `json:"url"`
	Wellformed bool                           `json:"wellformed"`
	Seen       map[string]map[string][]string `json:"seen"`
}

type pathState struct {
	texts []pathTextLine
	urls  []pathURLLine
}

var pathSt = &pathState{}

func init() {
	families["path"] = &family{replay: pathReplay, finish: pathFinish}
}

func anyToks(v any) []string {
	arr, _ := v.([]any)
	out := make([]string, len(arr))
	for i, x := range arr {
		out[i] = x.(string)
	}
	return out
}

func strictOpts(st string, extra ...func(*rux.Router)) []func(*rux.Router) {
	if st == "T" {
		return append(extra, rux.StrictLastSlash)
	}
	return extra
}

// guard runs fn and reports a panic as a mismatch (normalisation must be total)
func guard(s *Summary, desc map[string]any, c any, fn func()) (ok bool) {
	defer func() {
		if rec := recover(); rec != nil {
			desc["aspect"] = "panic"
			desc["what"] = fmt.Sprintf("%v: panic: %v", desc["what"], rec)
			s.mismatch(desc, c)
			ok = false
		}
	}()
	fn()
	return true
}

func pathReplay(s *Summary, raw json.RawMessage) {
	if strings.HasPrefix(string(raw), `{"url"`) || strings.Contains(string(raw[:min(len(raw), 400)]), `"wellformed"`) {
		var u pathURLLine
		if err := json.Unmarshal(raw, &u); err != nil {
			fatal("bad url line: %v", err)
		}
		pathSt.urls = append(pathSt.urls, u)
		return
	}
	var t pathTextLine
	if err := json.Unmarshal(raw, &t); err != nil {
		fatal("bad path line: %v", err)
	}
	pathSt.texts = append(pathSt.texts, t)
	p := tokStr(t.P)
	s.sample(map[string]any{"registered": p, "path_nonstrict": tokStr(t.Reg["F"]), "path_strict": tokStr(t.Reg["T"])})
	for _, st := range []string{"T", "F"} {
		// top level
		desc := func(what string) map[string]any {
			return map[string]any{"kind": "path", "aspect": "regpath", "strict": st == "T", "registered": p, "what": what}
		}
		guard(s, desc(fmt.Sprintf("Add(%q) strict=%s", p, st)), t.P, func() {
			r := newRouter(strictOpts(st)...)
			got := r.Add(p, nopHandler).Path()
			s.Compared++
			if want := tokStr(t.Reg[st]); got != want {
				s.mismatch(desc(fmt.Sprintf("Add(%q).Path() = %q, spec %q (strict=%s)", p, got, want, st)), t.P)
			}
		})
		for _, g := range t.Grp[st] {
			pre := tokStr(anyToks(g[0]))
			want := tokStr(anyToks(g[1]))
			guard(s, desc(fmt.Sprintf("Group(%q){Add(%q)} strict=%s", pre, p, st)), t.P, func() {
				r := newRouter(strictOpts(st)...)
				var rt *rux.Route
				r.Group(pre, func() { rt = r.Add(p, nopHandler) })
				s.Compared++
				if got := rt.Path(); got != want {
					d := desc(fmt.Sprintf("Group(%q){Add(%q)}.Path() = %q, spec %q (strict=%s)", pre, p, got, want, st))
					d["prefix"] = pre
					s.mismatch(d, t.P)
				}
			})
		}
		for _, g := range t.Grp2[st] {
			pre, pre2 := tokStr(anyToks(g[0])), tokStr(anyToks(g[1]))
			want := tokStr(anyToks(g[2]))
			guard(s, desc(fmt.Sprintf("Group(%q){Group(%q){Add(%q)}} strict=%s", pre, pre2, p, st)), t.P, func() {
				r := newRouter(strictOpts(st)...)
				var rt *rux.Route
				r.Group(pre, func() { r.Group(pre2, func() { rt = r.Add(p, nopHandler) }) })
				s.Compared++
				if got := rt.Path(); got != want {
					d := desc(fmt.Sprintf("Group(%q){Group(%q){Add(%q)}}.Path() = %q, spec %q (strict=%s)", pre, pre2, p, got, want, st))
					s.mismatch(d, t.P)
				}
			})
		}
	}
}

func pathFinish(s *Summary) {
	// reach relation: a route registered as P is reached by exactly the request strings with the same normal form
	pairs := 0
	// (every other option that has nothing to do with the normal form leaves the relation alone: UseEncodedPath changes which
	// string of the URL a served request is looked up with, not how a string is normalised at registration or lookup)
	for _, stEnc := range []string{"T", "F", "T+enc", "F+enc"} {
		st, enc := stEnc[:1], strings.HasSuffix(stEnc, "+enc")
		for _, tp := range pathSt.texts {
			p := tokStr(tp.P)
			var r *rux.Router
			if !guard(s, map[string]any{"kind": "path", "registered": p, "what": "Add"}, tp.P, func() {
				opts := append(strictOpts(st), rux.HandleMethodNotAllowed)
				if enc {
					opts = append(opts, rux.UseEncodedPath)
				}
				r = newRouter(opts...)
				r.Add(p, nopHandler, "GET")
			}) {
				continue
			}
			regNorm := tokStr(tp.Reg[st])
			// InterceptAll(p): every request is resolved as a request for p, and p is normalised like p was when it was registered
			if !enc && strings.TrimSpace(p) != "" && !strings.ContainsAny(p, "{[") {
				desc := map[string]any{"kind": "path", "aspect": "reach", "strict": st == "T", "registered": p, "request": "/zz/any",
					"what": fmt.Sprintf("route registered as %q on a router with InterceptAll(%q), strict=%s: a request for /zz/any does not reach it", p, p, st)}
				guard(s, desc, tp.P, func() {
					ri := newRouter(append(strictOpts(st), rux.InterceptAll(p))...)
					ri.Add(p, nopHandler, "GET")
					s.Compared++
					if rt, _, _ := ri.Match("GET", "/zz/any"); rt == nil {
						s.mismatch(desc, tp.P)
					}
				})
			}
			for _, tq := range pathSt.texts {
				q := tokStr(tq.P)
				want := regNorm == tokStr(tq.Req[st])
				pairs++
				desc := map[string]any{"kind": "path", "aspect": "reach", "strict": st == "T", "registered": p, "request": q,
					"what": fmt.Sprintf("route registered as %q, request path %q, strict=%s", p, q, stEnc)}
				guard(s, desc, []any{tp.P, tq.P}, func() {
					rt, _, _ := r.Match("GET", q)
					s.Compared++
					// every way a request can reach the route normalises alike: the direct lookup, the HEAD -> GET fallback and
					// the probe for the allowed methods of a 405 answer
					hd, _, _ := r.Match("HEAD", q)
					_, _, allowed := r.Match("POST", q)
					if (hd != nil) != want || (len(allowed) == 1 && allowed[0] == "GET") != want {
						desc["what"] = fmt.Sprintf("route registered as %q (path %q) for GET, request path %q (normal form %q), strict=%s: spec reached=%v, but HEAD fallback reached=%v, allowed methods for POST %v",
							p, regNorm, q, tokStr(tq.Req[st]), st, want, hd != nil, allowed)
						s.mismatch(desc, []any{tp.P, tq.P})
						return
					}
					if (rt != nil) != want {
						desc["what"] = fmt.Sprintf("route registered as %q (path %q), request path %q (normal form %q), strict=%s: reached=%v, spec %v",
							p, regNorm, q, tokStr(tq.Req[st]), st, rt != nil, want)
						s.mismatch(desc, []any{tp.P, tq.P})
					}
				})
			}
		}
	}
	// the same relation for DYNAMIC routes on a caching router: all request texts one after the other on one router (the
	// spellings of one URL follow each other), each twice; the model's normal form of the request decides which route it is
	segRe, segSlashRe := regexp.MustCompile(`^/a/[^/]+$`), regexp.MustCompile(`^/a/[^/]+/$`)
	for _, st := range []string{"T", "F"} {
		for _, capacity := range []int{1, 64} {
			rc := newRouter(append(strictOpts(st), cachingOpts(capacity)...)...)
			rc.GET("/a/{v}", nopHandler)
			if st == "T" {
				rc.GET("/a/{v}/", nopHandler)
			}
			for _, tq := range pathSt.texts {
				q, nf := tokStr(tq.P), tokStr(tq.Req[st])
				want := ""
				if segRe.MatchString(nf) {
					want = "/a/{v}"
				} else if st == "T" && segSlashRe.MatchString(nf) {
					want = "/a/{v}/"
				}
				desc := map[string]any{"kind": "path", "aspect": "reach", "strict": st == "T", "request": q}
				guard(s, desc, tq.P, func() {
					for pass := 1; pass <= 2; pass++ {
						rt, _, _ := rc.Match("GET", q)
						s.Compared++
						got := ""
						if rt != nil {
							got = rt.Path()
						}
						if got != want {
							desc["what"] = fmt.Sprintf("caching router (capacity %d, strict=%s) with the dynamic routes /a/{v}%s: request path %q (normal form %q), pass %d: reached %q, spec %q",
								capacity, st, map[bool]string{true: " and /a/{v}/", false: ""}[st == "T"], q, nf, pass, got, want)
							s.mismatch(desc, tq.P)
							return
						}
					}
				})
			}
		}
	}
	s.info("reach_pairs", pairs)
	// URL forms: decoded path, or escaped path with UseEncodedPath
	for _, enc := range []string{"T", "F"} {
		for _, st := range []string{"T", "F"} {
			opts := strictOpts(st)
			if enc == "T" {
				opts = append(opts, rux.UseEncodedPath)
			}
			r := newRouter(opts...)
			registered := map[string]bool{}
			for _, u := range pathSt.urls {
				seen := tokStr(u.Seen[enc][st])
				if registered[seen] || strings.ContainsAny(seen, "{[") {
					continue
				}
				tag := ""
				rt := r.Add(seen, func(c *rux.Context) { c.Text(200, tag) })
				tag = rt.Path()
				registered[tag] = true
				if tag != seen {
					registered[seen] = false
				}
			}
			// an internal redirect: the handler replaces the request URL and re-dispatches on the same context
			r.GET("/zz-redispatch", func(c *rux.Context) {
				if nu, err := url.ParseRequestURI(c.Req.Header.Get("X-Target")); err == nil {
					c.Req.URL = nu
					c.Router().HandleContext(c)
				}
			})
			for _, u := range pathSt.urls {
				if !u.Wellformed {
					continue
				}
				raw := strings.Join(u.URL, "")
				seen := tokStr(u.Seen[enc][st])
				req, err := http.NewRequest("GET", "http://example.com"+raw, nil)
				if err != nil {
					s.addInfo("urls_unparsable", 1)
					continue
				}
				desc := map[string]any{"kind": "path", "aspect": "url", "strict": st == "T", "encoded": enc == "T", "url": raw,
					"what": fmt.Sprintf("GET %s (UseEncodedPath=%s strict=%s)", raw, enc, st)}
				guard(s, desc, u, func() {
					w := httptest.NewRecorder()
					r.ServeHTTP(w, req)
					s.Compared++
					s.addInfo("urls", 1)
					got := w.Body.String()
					if w.Code == 404 {
						got = "<404>"
					}
					want := seen
					if !registered[seen] {
						want = "<404>"
					}
					if got != want {
						desc["what"] = fmt.Sprintf("GET %s (UseEncodedPath=%s strict=%s) served by %q, spec: the route with path %q", raw, enc, st, got, want)
						s.mismatch(desc, u)
						return
					}
					// the same URL as the target of an internal redirect resolves the same way
					w2 := httptest.NewRecorder()
					rq2, _ := http.NewRequest("GET", "http://example.com/zz-redispatch", nil)
					rq2.Header.Set("X-Target", raw)
					r.ServeHTTP(w2, rq2)
					got2 := w2.Body.String()
					if w2.Code == 404 {
						got2 = "<404>"
					}
					if got2 != want {
						desc["what"] = fmt.Sprintf("GET %s as the target of HandleContext (UseEncodedPath=%s strict=%s) served by %q, a direct request by %q", raw, enc, st, got2, want)
						s.mismatch(desc, u)
					}
				})
			}
		}
	}
}
