package main

import (
	"encoding/json"
	"fmt"
	"net/http"
	"net/url"
	"reflect"
	"strconv"
	"strings"

	"github.com/gookit/rux"
)

// family "url": binds RuxURL (spec/RuxURL.tla) to Router.BuildURL / Route.ToURL / BuildRequestURL and GetRoute.
//   {"pat":rux text,"asg":[[name,[tokens]]...],"built":[tokens],"routable":bool,"unique":bool}
//   {"ops":[{"api":..,"name":..,"route":i}],"table":{name: i}}

type urlCase struct {
	Pat      string   `json:"pat"`
	Asg      [][2]any `json:"asg"`
	Built    []string `json:"built"`
	Routable bool     `json:"routable"`
	RStrict  bool     `json:"routable_strict"`
	Unique   bool     `json:"unique"`
	Ops      []struct {
		API   string `json:"api"`
		Name  string `json:"name"`
		Route int    `json:"route"`
	} `json:"ops"`
	Table map[string]int `json:"table"`
}

func init() {
	tokenText["EACUTE"] = "é"
	tokenText["PCT"] = "%"
	tokenText["QM"] = "?"
	tokenText["HASH"] = "#"
	families["url"] = &family{replay: urlReplay}
}

func urlReplay(s *Summary, raw json.RawMessage) {
	var c urlCase
	if err := json.Unmarshal(raw, &c); err != nil {
		fatal("bad url case: %v", err)
	}
	if c.Ops != nil {
		urlNames(s, &c)
		return
	}
	if !c.Unique {
		s.addInfo("skipped_ambiguous", 1)
		return
	}
	s.sample(c)
	want := map[string]string{}
	for _, nv := range c.Asg {
		want[nv[0].(string)] = tokStr(anyToks(nv[1]))
	}
	built := tokStr(c.Built)
	// a value that contains a brace is substituted several times: the order in which the code walks its maps must not matter
	reps := 1
	for _, v := range want {
		if strings.ContainsAny(v, "{}") {
			reps = 6
		}
	}
	extras := [][2]string{{"q", "a b&c"}, {"page", "2"}}
	// an extra argument may be NAMED like a variable of the route (without the braces it is a query parameter like any other)
	for k := range want {
		extras[1][0] = k
		break
	}
	for style := 0; style < 6; style++ {
		strict := style >= 3 // the same three argument styles on a StrictLastSlash router
		if (strict && !c.RStrict) || (!strict && !c.Routable) {
			s.addInfo("skipped_not_routable", 1)
			continue
		}
		for it := 0; it < 3*reps; it++ {
			nextra := it % 3
			r := rux.New()
			if strict {
				r = newRouter(rux.StrictLastSlash)
			}
			// a caching router all of whose routes are route objects attached with AttachTo
			attachOnly := it%3 == 2 && style%3 == 1
			if attachOnly {
				opts := cachingOpts(4)
				if strict {
					opts = append(opts, rux.StrictLastSlash)
				}
				r = newRouter(opts...)
				rux.NewRoute("/zz/{decoy}/{d2}/{d3}/{d4}", nopHandler, "GET").AttachTo(r)
			} else {
				r.GET("/zz/{decoy}/{d2}/{d3}/{d4}", nopHandler) // decoys registered before and after
			}
			var target *rux.Route
			grouped := it%2 == 1 && style%3 == 0
			if grouped {
				// the route object exists (and has been asked for its URL) before it is registered inside a group
				target = rux.NewNamedRoute("target", c.Pat, nopHandler, "GET")
				_ = target.ToURL()
				r.Group("/v2", func() { target.AttachTo(r) })
			} else if attachOnly {
				target = rux.NewNamedRoute("target", c.Pat, nopHandler, "GET")
				target.AttachTo(r)
			} else {
				target = r.AddNamed("target", c.Pat, nopHandler)
			}
			if attachOnly {
				rux.NewRoute("/zz", nopHandler, "GET").AttachTo(r)
				rux.NewNamedRoute("zz-named", "/zz/named", nopHandler, "GET").AttachTo(r)
			} else {
				r.GET("/zz", nopHandler)
				r.AddNamed("zz-named", "/zz/named", nopHandler)
			}
			var u *url.URL
			desc := func(aspect, what string) map[string]any {
				return map[string]any{"kind": "url", "aspect": aspect, "pattern": c.Pat, "values": want, "style": style, "what": what}
			}
			var pan any
			func() {
				defer func() { pan = recover() }()
				switch style % 3 {
				case 0: // M map
					m := rux.M{}
					for k, v := range want {
						m["{"+k+"}"] = urlArg(v)
					}
					for _, e := range extras[:nextra] {
						m[e[0]] = urlArg(e[1])
					}
					u = r.BuildURL("target", m)
				case 1: // key/value pairs
					args := []any{}
					for k, v := range want {
						args = append(args, "{"+k+"}", urlArg(v))
					}
					for _, e := range extras[:nextra] {
						args = append(args, e[0], urlArg(e[1]))
					}
					if len(args) == 0 {
						u = r.BuildURL("target")
					} else {
						u = r.BuildURL("target", args...)
					}
				default: // builder (one builder object used for another named route first: every call starts from the route asked for)
					b := rux.NewBuildRequestURL()
					if it%2 == 0 {
						_ = r.BuildRequestURL("zz-named", b)
					}
					pm := rux.M{}
					for k, v := range want {
						pm["{"+k+"}"] = urlArg(v)
					}
					b.Params(pm)
					q := url.Values{}
					for _, e := range extras[:nextra] {
						q.Add(e[0], e[1])
					}
					if nextra >= 1 { // a key with several values (?tag=go&tag=web): all of them, in order
						q.Add("tag", "go")
						q.Add("tag", "web")
						q.Add("tag", "a b")
					}
					b.Queries(q)
					u = r.BuildRequestURL("target", b)
				}
			}()
			s.Compared++
			if pan != nil {
				s.mismatch(desc("build-panic", fmt.Sprintf("BuildURL(%q, %v) panicked: %v", c.Pat, want, pan)), c)
				return
			}
			wantPath := built
			if grouped {
				wantPath = "/v2" + built
			}
			if u.Path != wantPath {
				s.mismatch(desc("built", fmt.Sprintf("BuildURL(%q, %v).Path = %q, spec %q (registered in group /v2: %v)", c.Pat, want, u.Path, wantPath, grouped)), c)
				return
			}
			// the URL belongs to the caller: whatever is done to it must not show in the next URL built for the route
			if len(want) == 0 && nextra == 0 {
				u.Path += "/polluted"
				u.RawQuery = "p=1"
				if u2 := r.BuildURL("target"); u2.Path != wantPath || u2.RawQuery != "" {
					s.mismatch(desc("built", fmt.Sprintf("second BuildURL(%q) = %q after the caller changed the first result, spec %q", c.Pat, u2.String(), wantPath)), c)
					return
				}
				u.Path, u.RawQuery = wantPath, ""
			}
			req, err := http.NewRequest("GET", "http://example.com"+u.String(), nil)
			if err != nil {
				s.mismatch(desc("roundtrip", fmt.Sprintf("URL %q built for %q %v cannot be requested: %v", u.String(), c.Pat, want, err)), c)
				return
			}
			var route *rux.Route
			var ps rux.Params
			var mpan any
			func() {
				defer func() { mpan = recover() }()
				route, ps, _ = r.Match("GET", req.URL.Path)
				if attachOnly {
					// more distinct URLs than the cache holds in between: the entry of this URL is evicted and comes back
					for k := 0; k < 6; k++ {
						r.Match("GET", fmt.Sprintf("/zz/1/2/3/%d", k))
						r.Match("GET", req.URL.Path)
						r.Match("GET", fmt.Sprintf("/zz/1/2/%d/4", k))
						r.Match("GET", fmt.Sprintf("/zz/1/%d/3/4", k))
						r.Match("GET", fmt.Sprintf("/zz/%d/2/3/4", k))
						r.Match("GET", fmt.Sprintf("/zz/%d/%d/3/4", k, k))
					}
				}
				route, ps, _ = r.Match("GET", req.URL.Path) // (and once more: from the cache, where there is one)
			}()
			if mpan != nil {
				s.mismatch(desc("roundtrip", fmt.Sprintf("URL %q built for %q %v: the lookup panicked: %v", u.String(), c.Pat, want, mpan)), c)
				return
			}
			if route != target && !(attachOnly && route != nil && route.Name() == "target") {
				got := "no route"
				if route != nil {
					got = route.Path()
				}
				s.mismatch(desc("roundtrip", fmt.Sprintf("URL %q built for %q %v is dispatched to %s", u.String(), c.Pat, want, got)), c)
				return
			}
			if !paramsEqual(ps, want) {
				s.mismatch(desc("roundtrip", fmt.Sprintf("URL %q built for %q with %v comes back with params %v", u.String(), c.Pat, want, ps)), c)
				return
			}
			q := req.URL.Query()
			for _, e := range extras[:nextra] {
				if q.Get(e[0]) != e[1] {
					s.mismatch(desc("query", fmt.Sprintf("extra argument %s=%q of BuildURL(%q) arrives as %q (URL %q)", e[0], e[1], c.Pat, q.Get(e[0]), u.String())), c)
					return
				}
			}
			if style%3 == 2 && nextra >= 1 {
				if !reflect.DeepEqual(q["tag"], []string{"go", "web", "a b"}) {
					s.mismatch(desc("query", fmt.Sprintf("query key tag with the values [go web \"a b\"] given to the builder arrives as %q (URL %q)", q["tag"], u.String())), c)
					return
				}
				delete(q, "tag")
			}
			if len(q) != nextra {
				s.mismatch(desc("query", fmt.Sprintf("URL %q carries query %v, expected %d extra keys", u.String(), q, nextra)), c)
				return
			}
		}
	}
}

// urlArg: values are `any` in all three argument styles; a value that reads as a number is passed as a number
func urlArg(v string) any {
	if n, err := strconv.Atoi(v); err == nil && strconv.Itoa(n) == v {
		return n
	}
	return v
}

func urlNames(s *Summary, c *urlCase) {
	// twice: every route on a path of its own, and all routes on ONE path with a method of their own (same name and same
	// path registered again for another method is still "registered most recently under that name")
	for _, samePath := range []bool{false, true} {
		urlNamesRun(s, c, samePath, false)
	}
	// ... and with a URL built for the name after every step (links are built while the application still registers)
	urlNamesRun(s, c, false, true)
}

func urlNamesRun(s *Summary, c *urlCase, samePath, buildBetween bool) {
	methods := []string{"GET", "POST", "PUT", "PATCH", "DELETE", "OPTIONS", "HEAD", "TRACE", "CONNECT"}
	r := rux.New()
	paths := map[int]string{}
	made := map[int]*rux.Route{}
	for _, op := range c.Ops {
		p, m := fmt.Sprintf("/r%d", op.Route), "GET"
		if samePath {
			p, m = "/same", methods[op.Route%len(methods)]
		}
		paths[op.Route] = p
		if op.API == "Rename" {
			made[op.Route].NamedTo(op.Name, r)
			if buildBetween {
				_ = r.BuildURL(op.Name)
			}
			continue
		}
		switch op.API {
		case "AddNamed":
			made[op.Route] = r.AddNamed(op.Name, p, nopHandler, m)
		case "NewNamedRoute+AddRoute":
			made[op.Route] = r.AddRoute(rux.NewNamedRoute(op.Name, p, nopHandler, m))
		case "NewNamedRoute+AttachTo":
			rt := rux.NewNamedRoute(op.Name, p, nopHandler, m)
			rt.AttachTo(r)
			made[op.Route] = rt
		case "Add+NamedTo":
			rt := r.Add(p, nopHandler, m)
			rt.NamedTo(op.Name, r)
			made[op.Route] = rt
		default:
			fatal("unknown naming api %q", op.API)
		}
		if buildBetween {
			_ = r.BuildURL(op.Name)
		}
	}
	s.Compared++
	apis := []string{}
	for _, op := range c.Ops {
		apis = append(apis, op.API+"("+op.Name+")")
	}
	for name, id := range c.Table {
		rt := r.GetRoute(name)
		if rt == nil || rt != made[id] {
			got := "nil"
			if rt != nil {
				got = rt.String()
			}
			s.mismatch(map[string]any{"kind": "url", "aspect": "names", "what": fmt.Sprintf("after %s (all routes on one path: %v): GetRoute(%q) = %s, the most recently registered is %s",
				strings.Join(apis, ", "), samePath, name, got, made[id].String())}, c)
			return
		}
		if u := r.BuildURL(name); u.Path != paths[id] {
			s.mismatch(map[string]any{"kind": "url", "aspect": "names", "what": fmt.Sprintf("after %s: BuildURL(%q) = %s, expected %s", strings.Join(apis, ", "), name, u.Path, paths[id])}, c)
			return
		}
	}
}
