package main

import (
	"sync/atomic"

	"github.com/gookit/rux"
)

// newRouter builds a router from a set of options. HOW the options are applied is varied from call to call, because the
// properties quantify over configurations, not over one way of writing them down: New(opts...) in the given or in the
// reverse order, New() followed by WithOptions(opts...), or split between the two. All of these must be equivalent
// (WithOptions is legal until the first route is added).
var newRouterCalls, cachingOptsCalls int64

func newRouter(opts ...func(*rux.Router)) *rux.Router {
	n := int(atomic.AddInt64(&newRouterCalls, 1))
	if len(opts) == 0 {
		if n%2 == 0 {
			r := rux.New()
			r.WithOptions()
			return r
		}
		return rux.New()
	}
	o := append([]func(*rux.Router){}, opts...)
	switch (n + n/4 + n/16) % 4 {
	case 1:
		for i, j := 0, len(o)-1; i < j; i, j = i+1, j-1 {
			o[i], o[j] = o[j], o[i]
		}
		return rux.New(o...)
	case 2:
		r := rux.New()
		r.WithOptions(o...)
		return r
	case 3:
		k := (n / 4) % (len(o) + 1)
		r := rux.New(o[:k]...)
		r.WithOptions(o[k:]...)
		return r
	}
	return rux.New(o...)
}

// cachingOpts: the ways to ask for a route cache of a given capacity
func cachingOpts(capacity int) []func(*rux.Router) {
	n := int(atomic.AddInt64(&cachingOptsCalls, 1)) // (own counter: the two are called in lock step, the styles must not correlate)
	switch (n + n/3) % 3 {
	case 1:
		return []func(*rux.Router){rux.EnableCaching, rux.MaxNumCaches(uint16(capacity))}
	case 2:
		return []func(*rux.Router){rux.MaxNumCaches(uint16(capacity)), rux.EnableCaching}
	}
	return []func(*rux.Router){rux.CachingWithNum(uint16(capacity))}
}
