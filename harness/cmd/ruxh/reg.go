package main

import (
	"encoding/json"
	"fmt"
	"math/rand"
	"net/http"
	"net/url"
	"reflect"
	"regexp"
	"strings"

	"github.com/gookit/rux"
)

// family "reg": binds RuxReg (spec/RuxReg.tla) to Router.Group / Controller / Use / GET / Route.Use.
// A case is a flat registration program with the expected path and handler chain of every route. The program is
// turned into real nested Group (or Controller) closures; every handler logs its id <<statement, index>> on entry and
// on exit around c.Next(); one request per route is served and the log compared with the expected onion.

type regStmt struct {
	Common bool     `json:"common"`
	Op     string   `json:"op"`
	Prefix []string `json:"prefix"`
	Path   []string `json:"path"`
	Base   []string `json:"base"`
	Mw     int      `json:"mw"`
	Route  int      `json:"route"`
}

// Regres is the resource controller of "res" statements: it implements the index action only
type Regres struct{ h rux.HandlerFunc }

func (r *Regres) Index(c *rux.Context) { r.h(c) }

type regRoute struct {
	Pos   int      `json:"pos"`
	Path  []string `json:"path"`
	Chain [][2]int `json:"chain"`
	Nmw   int      `json:"nmw"`
}

type regCase struct {
	NGlobal *int       `json:"nglobal"`
	Prog    []regStmt  `json:"prog"`
	Routes  []regRoute `json:"routes"`
}

func init() {
	families["reg"] = &family{replay: regReplay}
}

type ctrlFunc func(r *rux.Router)

func (f ctrlFunc) AddRoutes(r *rux.Router) { f(r) }

type regExec struct {
	r      *rux.Router
	log    *[][]any
	routes []*rux.Route
	useCtl bool
	style  int // varies which registration API realises an "add" statement
	// every group prefix gets a path variable appended
	varPrefix bool
	trace     *traceWriter
	// shared != nil: every statement's middleware is a sub-slice (with spare capacity) of ONE caller-owned list, the
	// way an application passes mws[:k]... ; the router must not write into the caller's list
	shared []rux.HandlerFunc
	offs   map[int]int
	common []rux.HandlerFunc // the application's own middleware list <<0,1>>..<<0,3>>; groups may get common[:n]...
}

func (x *regExec) commonList() []rux.HandlerFunc {
	if x.common == nil {
		x.common = []rux.HandlerFunc{x.handler(0, 1), x.handler(0, 2), x.handler(0, 3)}
	}
	return x.common
}

// callerListIntact: the router must never write into the list the application passed (as common[:n]...)
func (x *regExec) callerListIntact() (bool, string) {
	if x.common == nil {
		return true, ""
	}
	save := *x.log
	defer func() { *x.log = save }()
	for i, h := range x.common {
		*x.log = [][]any{}
		h(&rux.Context{})
		l := *x.log
		if len(l) == 0 || l[0][1] != 0 || l[0][2] != i+1 {
			return false, fmt.Sprintf("element %d of the application's middleware list is now handler %v", i, l)
		}
	}
	return true, ""
}

func (x *regExec) handler(pos, idx int) rux.HandlerFunc {
	return func(c *rux.Context) {
		*x.log = append(*x.log, []any{"in", pos, idx})
		c.Next()
		*x.log = append(*x.log, []any{"out", pos, idx})
	}
}

func (x *regExec) mws(pos, n int) []rux.HandlerFunc {
	if x.shared != nil {
		off := x.offs[pos]
		return x.shared[off : off+n]
	}
	out := make([]rux.HandlerFunc, n)
	for i := range out {
		out[i] = x.handler(pos, i+1)
	}
	return out
}

// run executes prog[i:] until the matching exit; returns the index after it
func (x *regExec) run(prog []regStmt, i int) int {
	for i < len(prog) {
		st := prog[i]
		pos := i + 1
		if x.trace != nil && st.Op != "add" {
			ev := map[string]any{"op": st.Op, "mw": st.Mw}
			if st.Op == "enter" {
				ev["prefix"] = st.Prefix
				ev["common"] = st.Common
			}
			if st.Op == "ruse" {
				ev["route"] = st.Route
			}
			x.trace.emit(ev)
		}
		switch st.Op {
		case "enter":
			next := 0
			body := func() { next = x.run(prog, i+1) }
			gmw := x.mws(pos, st.Mw)
			if st.Common {
				gmw = x.commonList()[:st.Mw] // a prefix of the caller's list, with spare capacity behind it
			}
			prefix := tokStr(st.Prefix)
			if x.varPrefix {
				prefix = strings.TrimRight(prefix, "/ ") + fmt.Sprintf("/{v%d}", pos)
			}
			if x.useCtl && pos%2 == 0 {
				x.r.Controller(prefix, ctrlFunc(func(*rux.Router) { body() }), gmw...)
			} else {
				x.r.Group(prefix, body, gmw...)
			}
			i = next
			continue
		case "exit":
			return i + 1
		case "use":
			x.r.Use(x.mws(pos, st.Mw)...)
		case "add":
			// the ways to register a GET route with its own middleware: all of them put the group's middleware first
			var rt *rux.Route
			pth, h, mws := tokStr(st.Path), x.handler(pos, 0), x.mws(pos, st.Mw)
			switch (pos + st.Mw + x.style) % 4 {
			case 1: // the route carries its middleware before it is registered
				rt = rux.NewRoute(pth, h, "GET").Use(mws...)
				rt.AttachTo(x.r)
			case 2:
				rt = x.r.AddRoute(rux.NewNamedRoute(fmt.Sprintf("n%d", pos), pth, h, "GET").Use(mws...))
			case 3:
				rt = x.r.Add(pth, h, "GET").Use(mws...)
			default:
				rt = x.r.GET(pth, h, mws...)
			}
			x.routes = append(x.routes, rt)
			if x.trace != nil {
				pth := st.Path
				if pth == nil {
					pth = []string{}
				}
				x.trace.emit(map[string]any{"op": "add", "path": pth, "mw": st.Mw, "got": toks(rt.Path())})
			}
		case "res":
			x.r.Resource(tokStr(st.Base), &Regres{h: x.handler(pos, 0)}, x.mws(pos, st.Mw)...)
			x.routes = append(x.routes, x.r.GetRoute("regres_index")) // (the name points to the route registered last)
		case "ruse":
			x.routes[st.Route-1].Use(x.mws(pos, st.Mw)...)
		default:
			fatal("unknown reg op %q", st.Op)
		}
		i++
	}
	return i
}

var regVarRe = regexp.MustCompile(`\{v\d+\}`)

func regReplay(s *Summary, raw json.RawMessage) {
	var c regCase
	if err := json.Unmarshal(raw, &c); err != nil {
		fatal("bad reg case: %v", err)
	}
	s.sample(c)
	for variant := 0; variant < 4; variant++ {
		useCtl := variant == 1
		log := [][]any{}
		// variant 3: every group prefix ends in a path variable ("/a" -> "/a/{v<k>}"): a plain route inside such a group is a
		// dynamic route, it is reached with any value and runs the same chain
		x := &regExec{r: rux.New(), log: &log, useCtl: useCtl, style: variant, varPrefix: variant == 3}
		if variant == 3 { // (these routes are dynamic: on a caching router, and every request is sent twice - miss, then hit)
			x.r = newRouter(cachingOpts(8)...)
		}
		if variant == 2 {
			x.offs = map[int]int{}
			x.shared = []rux.HandlerFunc{}
			for i, st := range c.Prog {
				x.offs[i+1] = len(x.shared)
				for k := 1; k <= st.Mw; k++ {
					x.shared = append(x.shared, x.handler(i+1, k))
				}
			}
		}
		var pan any
		func() {
			defer func() { pan = recover() }()
			x.run(c.Prog, 0)
		}()
		desc := func(aspect, what string) map[string]any {
			if variant == 2 {
				what = "[middleware passed as sub-slices of one shared list] " + what
			}
			return map[string]any{"kind": "reg", "aspect": aspect, "controller": useCtl, "shared_list": variant == 2, "what": what}
		}
		if pan != nil {
			s.mismatch(desc("registration-panic", fmt.Sprintf("program %v panicked: %v", progText(c.Prog), pan)), c)
			return
		}
		if ok, why := x.callerListIntact(); !ok {
			s.mismatch(desc("caller-list", fmt.Sprintf("program %v: %s", progText(c.Prog), why)), c)
			return
		}
		if c.NGlobal != nil && len(x.r.Handlers()) != *c.NGlobal {
			s.mismatch(desc("middleware", fmt.Sprintf("program %v: the router has %d global middleware, spec %d", progText(c.Prog), len(x.r.Handlers()), *c.NGlobal)), c)
			return
		}
		if len(x.routes) != len(c.Routes) {
			s.mismatch(desc("routes", fmt.Sprintf("%d routes registered, spec %d", len(x.routes), len(c.Routes))), c)
			return
		}
		for k, er := range c.Routes {
			rt := x.routes[k]
			s.Compared++
			wantPath := tokStr(er.Path)
			if x.varPrefix {
				wantPath = regVarRe.ReplaceAllString(rt.Path(), "7") // (the registered path is not the model's here; request it with values)
			} else if rt.Path() != wantPath {
				s.mismatch(desc("path", fmt.Sprintf("program %v: route #%d Path() = %q, spec %q", progText(c.Prog), k+1, rt.Path(), wantPath)), c)
				continue
			}
			if len(rt.Handlers()) != er.Nmw {
				s.mismatch(desc("middleware", fmt.Sprintf("program %v: route #%d carries %d middleware, spec %d", progText(c.Prog), k+1, len(rt.Handlers()), er.Nmw)), c)
				continue
			}
			// reachable exactly under the concatenated prefixes: request the expected path
			log = log[:0]
			rw := &recWriter{hdr: http.Header{}}
			req := &http.Request{Method: "GET", URL: &url.URL{Path: wantPath}, Header: http.Header{}, Proto: "HTTP/1.1"}
			x.r.ServeHTTP(rw, req)
			want := [][]any{}
			for _, id := range er.Chain {
				want = append(want, []any{"in", id[0], id[1]})
			}
			for i := len(er.Chain) - 1; i >= 0; i-- {
				want = append(want, []any{"out", er.Chain[i][0], er.Chain[i][1]})
			}
			// another route may be registered under the same path earlier (same method+path: the later one wins in the
			// stable map); only compare when this route is the last one with that path
			shadowed := false
			for j := range c.Routes {
				// (static routes: the later one wins; dynamic routes - all routes inside groups of variant 3 - the earlier one)
				if j != k && (j > k || x.varPrefix) && tokStr(c.Routes[j].Path) == tokStr(er.Path) {
					shadowed = true
				}
			}
			if shadowed {
				s.addInfo("shadowed_routes_skipped", 1)
				continue
			}
			if !reflect.DeepEqual(log, want) {
				s.mismatch(desc("chain", fmt.Sprintf("program %v: GET %s ran %v, spec %v (events [in|out, statement, index])", progText(c.Prog), wantPath, log, want)), c)
				continue
			}
			if variant == 3 {
				log = log[:0]
				x.r.ServeHTTP(&recWriter{hdr: http.Header{}}, &http.Request{Method: "GET", URL: &url.URL{Path: wantPath}, Header: http.Header{}, Proto: "HTTP/1.1"})
				if !reflect.DeepEqual(log, want) {
					s.mismatch(desc("chain", fmt.Sprintf("program %v: GET %s requested again (route cache) ran %v, spec %v", progText(c.Prog), wantPath, log, want)), c)
				}
			}
		}
	}
}

func progText(p []regStmt) string {
	out := ""
	for _, st := range p {
		switch st.Op {
		case "enter":
			if st.Common {
				out += fmt.Sprintf("Group(%q,common[:%d]...){ ", tokStr(st.Prefix), st.Mw)
			} else {
				out += fmt.Sprintf("Group(%q,mw=%d){ ", tokStr(st.Prefix), st.Mw)
			}
		case "exit":
			out += "} "
		case "use":
			out += fmt.Sprintf("Use(%d) ", st.Mw)
		case "add":
			out += fmt.Sprintf("GET(%q,mw=%d) ", tokStr(st.Path), st.Mw)
		case "res":
			out += fmt.Sprintf("Resource(%q,&Regres{},mw=%d) ", tokStr(st.Base), st.Mw)
		case "ruse":
			out += fmt.Sprintf("Route#%d.Use(%d) ", st.Route, st.Mw)
		}
	}
	return out
}

// ---- family "regrec": random long programs recorded for spec/trace/TraceReg.tla ------------------------------------

func init() {
	families["regrec"] = &family{record: regRecord}
}

func regRecord(s *Summary, rng *rand.Rand, n int, out *traceWriter) {
	prefixes := [][]string{toks("/a"), toks("b"), toks("/c/"), toks("/d/e"), toks(" f")}
	paths := [][]string{toks("/x"), toks("y/"), {}, toks("/{id}"), toks("/z/{n}"), toks("w.v")}
	for t := 0; t < n; t++ {
		out.emit(map[string]any{"op": "reset"})
		// build a random balanced program
		prog := []regStmt{}
		depth := 0
		nroutes := 0
		length := 8 + rng.Intn(33)
		for len(prog) < length {
			switch x := rng.Intn(10); {
			case x < 2 && depth < 5:
				st := regStmt{Op: "enter", Prefix: prefixes[rng.Intn(len(prefixes))], Mw: rng.Intn(3)}
				if rng.Intn(3) == 0 {
					st.Common, st.Mw = true, 1+rng.Intn(3)
				}
				prog = append(prog, st)
				depth++
			case x < 4 && depth > 0:
				prog = append(prog, regStmt{Op: "exit"})
				depth--
			case x < 6:
				prog = append(prog, regStmt{Op: "use", Mw: 1 + rng.Intn(2)})
			case x < 9:
				prog = append(prog, regStmt{Op: "add", Path: paths[rng.Intn(len(paths))], Mw: rng.Intn(3)})
				nroutes++
			default:
				if nroutes > 0 {
					prog = append(prog, regStmt{Op: "ruse", Route: 1 + rng.Intn(nroutes), Mw: 1})
				}
			}
		}
		for ; depth > 0; depth-- {
			prog = append(prog, regStmt{Op: "exit"})
		}
		if t < 2 {
			// two fixed programs first: a group whose chain is grown by single Use calls (spare capacity in its slice) with
			// sibling routes that each bring one middleware of their own, more Use calls in between, nested once
			use1, add1 := regStmt{Op: "use", Mw: 1}, func(p string) regStmt { return regStmt{Op: "add", Path: toks(p), Mw: 1} }
			prog = []regStmt{{Op: "enter", Prefix: toks("/a"), Mw: t}, use1, use1, use1, add1("/x"), add1("y/"), add1("/{id}"), add1("/z/{n}"), use1, add1("w.v"),
				{Op: "enter", Prefix: toks("b"), Mw: 0}, use1, add1("/x"), add1("/{id}"), {Op: "exit"}, add1("/q"), {Op: "add", Path: toks("/r"), Mw: 0}, {Op: "exit"}, add1("/x")}
		}
		// execute it, emitting every statement when it executes
		log := [][]any{}
		x := &regExec{r: rux.New(), log: &log, useCtl: rng.Intn(2) == 0}
		x.trace = out
		x.run(prog, 0)
		// one request per route (skip routes shadowed by a later route with the same path)
		for k, rt := range x.routes {
			shadowed := false
			for j := range x.routes { // same path twice: static -> the later wins, dynamic -> the earlier; probe neither
				shadowed = shadowed || (j != k && x.routes[j].Path() == rt.Path())
			}
			if shadowed {
				continue
			}
			p := strings.NewReplacer("{id}", "7", "{n}", "8").Replace(rt.Path())
			log = log[:0]
			rw := &recWriter{hdr: http.Header{}}
			x.r.ServeHTTP(rw, &http.Request{Method: "GET", URL: &url.URL{Path: p}, Header: http.Header{}, Proto: "HTTP/1.1"})
			chain := [][2]int{}
			for _, e := range log {
				if e[0] == "in" {
					chain = append(chain, [2]int{e[1].(int), e[2].(int)})
				}
			}
			// the leaves must mirror the enters (onion)
			okOnion := len(log) == 2*len(chain)
			for i := 0; okOnion && i < len(chain); i++ {
				o := log[len(log)-1-i]
				okOnion = o[0] == "out" && o[1] == chain[i][0] && o[2] == chain[i][1]
			}
			if !okOnion {
				chain = append(chain, [2]int{-1, -1})
			}
			out.emit(map[string]any{"op": "req", "route": k + 1, "chain": chain, "nmw": len(rt.Handlers()), "path": p})
		}
		s.Cases++
	}
}

// toks: a string as one-character tokens of the specification (white space as SP / TAB)
func toks(s string) []string {
	out := make([]string, 0, len(s))
	for _, c := range s {
		switch c {
		case ' ':
			out = append(out, "SP")
		case '\t':
			out = append(out, "TAB")
		default:
			out = append(out, string(c))
		}
	}
	return out
}
