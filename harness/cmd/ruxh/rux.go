package main

import (
	"encoding/json"
	"fmt"
	"net/http"
	"net/url"
	"reflect"
	"strings"

	"github.com/gookit/rux"
)

// family "rux": replays behaviours of the composition Rux.tla (spec/Rux.tla): a registration program whose handlers
// have scripts, followed by a request history on a (possibly caching) router. After every request the handler log
// (with handler identities), the calls received by the underlying writer and the cache keys are compared.

type ruxStep struct {
	Op      string   `json:"op"`
	Prefix  []string `json:"prefix"`
	Path    []string `json:"path"`
	Base    []string `json:"base"`
	Mw      int      `json:"mw"`
	Scripts []string `json:"scripts"`
	Ms      []string `json:"ms"`
	Main    string   `json:"main"`
	Route   int      `json:"route"`
	Hmna    bool     `json:"hmna"`
	Cap     int      `json:"cap"`
	M       string   `json:"m"`
	Obs     struct {
		Kind   string  `json:"kind"`
		R      int     `json:"r"`
		Log    [][]any `json:"log"`
		Status int     `json:"status"`
		Under  [][]any `json:"under"`
	} `json:"obs"`
	Keys [][2]any `json:"keys"`
}

type ruxCase struct {
	H []ruxStep `json:"h"`
}

func init() {
	families["rux"] = &family{replay: ruxReplay}
}

type ruxExec struct {
	r      *rux.Router
	log    *[][]any
	routes []*rux.Route
}

func (x *ruxExec) handler(pos, idx int, script string) rux.HandlerFunc {
	id := []any{pos, idx}
	return func(c *rux.Context) {
		if len(*x.log) == 0 {
			// the first instrumented handler of a request: the context must be pristine whatever earlier requests did (C10)
			if v, ok := c.Get("resid"); ok || len(c.Errors) != 0 || c.IsAborted() || c.Length() != -1 || c.Req.Header.Get("X-Resid") != "" {
				*x.log = append(*x.log, []any{"residue", id, fmt.Sprintf("data resid=%v errors=%d aborted=%v length=%d X-Resid=%q",
					v, len(c.Errors), c.IsAborted(), c.Length(), c.Req.Header.Get("X-Resid"))})
			}
		}
		*x.log = append(*x.log, []any{"in", id, c.IsAborted()})
		switch script {
		case "E":
			c.AddError(fmt.Errorf("boom"))
			c.Next()
		case "D":
			c.Set("resid", id)
			c.Req = c.Req.Clone(c.Req.Context())
			c.Req.Header.Set("X-Resid", "1")
			c.Next()
		case "MP":
			panic(&panicToken{pos})
		case "N":
			c.Next()
		case "A":
			c.Abort()
		case "S":
			c.SetStatus(202)
			c.Next()
		case "M":
			c.WriteString("ok")
		case "R":
		default:
			fatal("unknown script %q", script)
		}
		*x.log = append(*x.log, []any{"out", id, c.IsAborted()})
	}
}

func mainScript(m string) string {
	if m == "" {
		return "M"
	}
	return m
}

func (x *ruxExec) mws(pos int, st ruxStep) []rux.HandlerFunc {
	out := make([]rux.HandlerFunc, st.Mw)
	for i := range out {
		out[i] = x.handler(pos, i+1, st.Scripts[i])
	}
	return out
}

func (x *ruxExec) run(prog []ruxStep, i int) int {
	for i < len(prog) {
		st := prog[i]
		pos := i + 1
		switch st.Op {
		case "enter":
			next := 0
			x.r.Group(tokStr(st.Prefix), func() { next = x.run(prog, i+1) }, x.mws(pos, st)...)
			i = next
			continue
		case "exit":
			return i + 1
		case "use":
			x.r.Use(x.mws(pos, st)...)
		case "add":
			x.routes = append(x.routes, x.r.Add(tokStr(st.Path), x.handler(pos, 0, mainScript(st.Main)), st.Ms...).Use(x.mws(pos, st)...))
		case "res":
			x.r.Resource(tokStr(st.Base), &Regres{h: x.handler(pos, 0, mainScript(st.Main))}, x.mws(pos, st)...)
			x.routes = append(x.routes, x.r.GetRoute("regres_index"))
		case "ruse":
			x.routes[st.Route-1].Use(x.mws(pos, st)...)
		case "serve":
			return len(prog)
		}
		i++
	}
	return i
}

func ruxReplay(s *Summary, raw json.RawMessage) {
	var c ruxCase
	if err := json.Unmarshal(raw, &c); err != nil {
		fatal("bad rux case: %v", err)
	}
	nprog := 0
	var serve ruxStep
	for i, st := range c.H {
		if st.Op == "serve" {
			nprog, serve = i, st
			break
		}
	}
	opts := cachingOpts(serve.Cap)
	if serve.Hmna {
		opts = append(opts, rux.HandleMethodNotAllowed)
	}
	log := [][]any{}
	x := &ruxExec{r: newRouter(opts...), log: &log}
	x.r.OnError = func(c *rux.Context) { c.SetStatus(500) }
	x.r.OnPanic = func(c *rux.Context) {
		c.SetStatus(503)
		_, _ = c.Resp.Write([]byte("xxx"))
	}
	var pan any
	func() {
		defer func() { pan = recover() }()
		x.run(c.H[:nprog], 0)
	}()
	text := func() string {
		out := []string{}
		for _, st := range c.H[:nprog] {
			switch st.Op {
			case "enter":
				out = append(out, fmt.Sprintf("Group(%q,%v){", tokStr(st.Prefix), st.Scripts))
			case "exit":
				out = append(out, "}")
			case "use":
				out = append(out, fmt.Sprintf("Use(%v)", st.Scripts))
			case "add":
				out = append(out, fmt.Sprintf("Add(%q,%v,%v)", tokStr(st.Path), st.Ms, st.Scripts))
			case "res":
				out = append(out, fmt.Sprintf("Resource(%q,&Regres{},%v)", tokStr(st.Base), st.Scripts))
			case "ruse":
				out = append(out, fmt.Sprintf("Route#%d.Use(%v)", st.Route, st.Scripts))
			}
		}
		return strings.Join(out, " ") + fmt.Sprintf(" [hmna=%v cache=%d]", serve.Hmna, serve.Cap)
	}
	for _, st := range c.H[:nprog] {
		s.addInfo("statements_"+st.Op, 1)
	}
	if len(s.Samples) < 2 {
		s.sample(map[string]any{"program": text(), "requests": len(c.H) - nprog - 1})
	}
	if pan != nil {
		s.mismatch(map[string]any{"kind": "rux", "aspect": "registration-panic", "what": fmt.Sprintf("program %s panicked: %v", text(), pan)}, c)
		return
	}
	for ri, st := range c.H[nprog+1:] {
		path := tokStr(st.Path)
		log = log[:0]
		rw := &recWriter{hdr: http.Header{}}
		var rp any
		func() {
			defer func() { rp = recover() }()
			x.r.ServeHTTP(rw, &http.Request{Method: st.M, URL: &url.URL{Path: path}, Header: http.Header{}, Proto: "HTTP/1.1"})
		}()
		s.Compared++
		where := fmt.Sprintf("program %s, request #%d %s %s", text(), ri+1, st.M, path)
		bad := func(aspect, what string) {
			s.mismatch(map[string]any{"kind": "rux", "aspect": aspect, "what": where + ": " + what}, c)
		}
		if rp != nil {
			bad("panic", fmt.Sprintf("ServeHTTP panicked: %v", rp))
			return
		}
		want := [][]any{}
		for _, e := range st.Obs.Log {
			idv := e[1].([]any)
			want = append(want, []any{e[0], []any{int(idv[0].(float64)), int(idv[1].(float64))}, e[2]})
		}
		if !(len(log) == 0 && len(want) == 0) && !reflect.DeepEqual(log, want) {
			bad("chain", fmt.Sprintf("handlers ran %v, the composition predicts %v (resolution: %s route #%d)", log, want, st.Obs.Kind, st.Obs.R))
			return
		}
		wantU := normLog(st.Obs.Under)
		if !reflect.DeepEqual(rw.calls, wantU) {
			bad("writer", fmt.Sprintf("underlying writer received %v, predicted %v", rw.calls, wantU))
			return
		}
		wantK := []string{}
		for _, k := range st.Keys {
			wantK = append(wantK, k[0].(string)+tokStr(anyToks(k[1])))
		}
		gotK := []string{}
		if cc := x.r.VerifCache(); cc != nil {
			gotK = cc.VerifKeys()
		}
		if !(len(gotK) == 0 && len(wantK) == 0) && !reflect.DeepEqual(gotK, wantK) {
			bad("cache-content", fmt.Sprintf("cache keys %v, predicted %v", gotK, wantK))
			return
		}
	}
}
