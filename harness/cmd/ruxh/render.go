package main

import (
	"bytes"
	"encoding/json"
	"encoding/xml"
	"errors"
	"fmt"
	"net/http"
	"net/http/httptest"
	"net/url"
	"reflect"
	"strconv"
	"strings"
	"testing/iotest"

	"github.com/gookit/rux"
	"github.com/gookit/rux/pkg/render"
)

// family "render": binds RuxRender (spec/RuxRender.tla) to the Context response helpers and pkg/render.
//   {"t":"helper","h":..,"status":..,"preset":bool,"v":class,"predict":{"status":..,"ctype":..,"body":shape}}
//   {"t":"accept","l":[entries],"pick":"json|xml|text|unsupported"}

type renderCase struct {
	T       string `json:"t"`
	H       string `json:"h"`
	Status  int    `json:"status"`
	Preset  bool   `json:"preset"`
	V       string `json:"v"`
	Predict struct {
		Status int    `json:"status"`
		Ctype  string `json:"ctype"`
		Body   string `json:"body"`
	} `json:"predict"`
	L    []string `json:"l"`
	Pick string   `json:"pick"`
}

type renderStruct struct {
	XMLName xml.Name `json:"-" xml:"item"`
	ID      int      `json:"id" xml:"id"`
	Title   string   `json:"title" xml:"title"`
	Tags    []string `json:"tags" xml:"tags"`
}

func init() {
	families["render"] = &family{replay: renderReplay}
}

func renderValues(class string) []any {
	switch class {
	case "str_plain":
		return []any{"hello", "", "100% done, %d items %s %!"}
	case "str_html":
		// (the last one: text ABOUT escapes - a literal backslash followed by u0026 / u003c / u003e)
		return []any{"<b>&amp;\"'</b>", "</script><script>alert(1)</script>", "C:\\users\\u0026co writes \\u003cb\\u003e & <i>"}
	case "str_ctrl":
		return []any{"a\tb\nc\x00d\x1f", "\r\n\r\n"}
	case "str_unicode":
		return []any{"héllo wörld ✓ 日本", "   \U0001F600"}
	case "map_nested":
		return []any{map[string]any{"a": 1.0, "b": map[string]any{"c": []any{"x", 2.0, nil}, "d": "<&>"}}, map[string]any{}}
	case "struct":
		return []any{renderStruct{ID: 7, Title: "t<&>é", Tags: []string{"a", "b"}}, renderStruct{}}
	case "bytes":
		return []any{[]byte("raw\x00\xff bytes"), []byte{}}
	case "chan":
		return []any{make(chan int)}
	}
	return nil
}

func renderReplay(s *Summary, raw json.RawMessage) {
	var c renderCase
	if err := json.Unmarshal(raw, &c); err != nil {
		fatal("bad render case: %v", err)
	}
	if len(s.Samples) < 3 {
		s.sample(c)
	}
	if c.T == "accept" {
		renderAccept(s, &c)
		return
	}
	for _, v := range renderValues(c.V) {
		if c.Preset {
			// "the type the caller has set" is any text - also one that reads exactly like a type the renderers write themselves
			for _, pt := range []string{"preset/type", "text/plain; charset=utf-8", "application/json; charset=utf-8", "application/xml; charset=utf-8", "text/html; charset=utf-8"} {
				cc := c
				if cc.Predict.Ctype == "preset/type" {
					cc.Predict.Ctype = pt
				}
				renderHelper(s, &cc, v, pt)
			}
			continue
		}
		renderHelper(s, &c, v, "")
		if c.H == "MustRender" || c.H == "ShouldRender" {
			for renderOptNo = 1; renderOptNo < 4; renderOptNo++ {
				renderHelper(s, &c, v, "")
			}
			renderOptNo = 0
		}
		if c.H == "HTTPError" {
			// the failure path of a handler that had already announced the size of the answer it meant to give: the error
			// message is what the client gets, whole (net/http enforces an announced length)
			for _, n := range []string{"57", "0", "3"} {
				renderAnnounce = n
				renderHelper(s, &c, v, "")
				renderAnnounce = ""
			}
		}
	}
	if c.V == "struct" && !c.Preset && c.Status == 200 {
		renderOdd(s, &c)
	}
}

// renderMap: a map type that knows how to write itself as XML (encoding/xml cannot encode plain maps)
type renderMap map[string]string

func (m renderMap) MarshalXML(e *xml.Encoder, start xml.StartElement) error {
	start.Name.Local = "m"
	if err := e.EncodeToken(start); err != nil {
		return err
	}
	for _, k := range []string{"a", "b"} {
		if err := e.EncodeElement(m[k], xml.StartElement{Name: xml.Name{Local: k}}); err != nil {
			return err
		}
	}
	return e.EncodeToken(start.End())
}

// renderOdd: values at the edge of what the encoders take - an untyped nil (never a panic), a map type with its own
// MarshalXML (encodable, so it is encoded)
func renderOdd(s *Summary, c *renderCase) {
	call := func(v any) (w *httptest.ResponseRecorder, errs int, pan any) {
		r := rux.New()
		r.GET("/r", func(cx *rux.Context) {
			switch c.H {
			case "XML":
				cx.XML(200, v)
			case "JSON":
				cx.JSON(200, v)
			case "JSONP":
				cx.JSONP(200, "cb", v)
			case "render.XML":
				if err := render.XML(cx.Resp, v); err != nil {
					errs++
				}
			case "render.JSON":
				if err := render.JSON(cx.Resp, v); err != nil {
					errs++
				}
			}
			errs += len(cx.Errors)
		})
		w = httptest.NewRecorder()
		func() {
			defer func() { pan = recover() }()
			r.ServeHTTP(w, &http.Request{Method: "GET", URL: &url.URL{Path: "/r"}, Header: http.Header{}, Proto: "HTTP/1.1"})
		}()
		return
	}
	switch c.H {
	case "XML", "JSON", "JSONP", "render.XML", "render.JSON":
	default:
		return
	}
	s.Compared++
	if _, _, pan := call(nil); pan != nil {
		s.mismatch(map[string]any{"kind": "render", "aspect": "panic", "helper": c.H, "what": fmt.Sprintf("%s with an untyped nil value panicked: %v", c.H, pan)}, c)
		return
	}
	if c.H == "XML" || c.H == "render.XML" {
		w, errs, pan := call(renderMap{"a": "1", "b": "<2>"})
		var back struct {
			A string `xml:"a"`
			B string `xml:"b"`
		}
		if pan != nil || errs != 0 || xml.Unmarshal(w.Body.Bytes(), &back) != nil || back.A != "1" || back.B != "<2>" {
			s.mismatch(map[string]any{"kind": "render", "aspect": "body", "helper": c.H, "what": fmt.Sprintf(
				"%s of a map type with its own MarshalXML: body %q errors %d panic %v does not decode back to the value", c.H, w.Body.String(), errs, pan)}, c)
		}
	}
}

func asBytes(v any) []byte {
	switch x := v.(type) {
	case string:
		return []byte(x)
	case []byte:
		return x
	}
	return nil
}

// renderAnnounce: a Content-Length the handler sets before it calls the helper ("" = none)
var renderAnnounce string

func renderHelper(s *Summary, c *renderCase, v any, presetText string) {
	var retErr error
	var ctxErrs []error
	r := rux.New()
	r.GET("/r", func(cx *rux.Context) {
		if c.Preset {
			cx.SetHeader("Content-Type", presetText)
		}
		if renderAnnounce != "" {
			cx.SetHeader("Content-Length", renderAnnounce)
		}
		switch c.H {
		case "Text":
			cx.Text(c.Status, string(asBytes(v)))
		case "HTML":
			cx.HTML(c.Status, asBytes(v))
		case "JSON":
			cx.JSON(c.Status, v)
		case "JSONBytes":
			bs, _ := json.Marshal(v) // JSONBytes is given an already encoded document
			cx.JSONBytes(c.Status, bs)
		case "JSONP":
			cx.JSONP(c.Status, "cb", v)
		case "XML":
			cx.XML(c.Status, v)
		case "Blob":
			cx.Blob(c.Status, "image/custom", asBytes(v))
		case "Stream":
			if c.Status%2 == 0 {
				cx.Stream(c.Status, "image/custom", bytes.NewReader(asBytes(v)))
			} else { // a reader that hands out its last chunk together with io.EOF (like net/http bodies)
				cx.Stream(c.Status, "image/custom", iotest.DataErrReader(bytes.NewReader(asBytes(v))))
			}
		case "MustRender":
			cx.MustRender(c.Status, v, renderJSONOpts())
		case "ShouldRender":
			retErr = cx.ShouldRender(c.Status, v, renderJSONOpts())
		case "NoContent":
			cx.NoContent()
		case "Redirect":
			cx.Redirect("/elsewhere", c.Status)
		case "HTTPError":
			cx.HTTPError("the message", c.Status)
		case "render.Text":
			retErr = render.Text(cx.Resp, string(asBytes(v)))
		case "render.JSON":
			retErr = render.JSON(cx.Resp, v)
		case "render.XML":
			retErr = render.XML(cx.Resp, v)
		case "render.JSONP":
			retErr = render.JSONP("cb", v, cx.Resp)
		case "render.Blob":
			retErr = render.Blob(cx.Resp, "image/custom", asBytes(v))
		default:
			fatal("unknown helper %s", c.H)
		}
		ctxErrs = append([]error{}, cx.Errors...)
	})
	// an earlier request of the same kind whose client had gone away (every write fails); the measured request - most likely
	// served on the same pooled context - is answered like the first request of the router
	func() {
		defer func() { _ = recover() }()
		r.ServeHTTP(&goneWriter{hdr: http.Header{}}, &http.Request{Method: "GET", URL: &url.URL{Path: "/r"}, Header: http.Header{}, Proto: "HTTP/1.1"})
	}()
	retErr, ctxErrs = nil, nil
	w := httptest.NewRecorder()
	var pan any
	func() {
		defer func() { pan = recover() }()
		r.ServeHTTP(w, &http.Request{Method: "GET", URL: &url.URL{Path: "/r"}, Header: http.Header{}, Proto: "HTTP/1.1"})
	}()
	s.Compared++
	desc := func(aspect, what string) map[string]any {
		return map[string]any{"kind": "render", "aspect": aspect, "helper": c.H, "what": fmt.Sprintf("%s(status %d, preset Content-Type=%q, value %#v): %s", c.H, c.Status, presetText, v, what)}
	}
	if pan != nil {
		s.mismatch(desc("panic", fmt.Sprintf("panicked: %v", pan)), c)
		return
	}
	if c.Predict.Body == "encoding-error" {
		if retErr == nil && len(ctxErrs) == 0 {
			s.mismatch(desc("error", "the value cannot be encoded, but neither Context.Errors nor the returned error reports it"), c)
		}
		if ct := w.Header().Get("Content-Type"); c.Preset && ct != presetText {
			// a Content-Type the caller has set is the caller's, also when the encoder gives up
			s.mismatch(desc("content-type", fmt.Sprintf("the value cannot be encoded; afterwards the Content-Type set by the caller has become %q", ct)), c)
		}
		return
	}
	if retErr != nil || len(ctxErrs) > 0 {
		s.mismatch(desc("error", fmt.Sprintf("unexpected error %v %v", retErr, ctxErrs)), c)
		return
	}
	if w.Code != c.Predict.Status {
		s.mismatch(desc("status", fmt.Sprintf("status %d, expected %d", w.Code, c.Predict.Status)), c)
		return
	}
	if ct := w.Header().Get("Content-Type"); c.Predict.Ctype != "*" && ct != c.Predict.Ctype && !(c.Predict.Ctype == "" && !c.Preset) && !(c.Preset && !strings.HasPrefix(c.H, "render.") && c.Predict.Ctype == "" && ct == presetText) {
		s.mismatch(desc("content-type", fmt.Sprintf("Content-Type %q, expected %q", ct, c.Predict.Ctype)), c)
		return
	}
	body := w.Body.Bytes()
	if cl := w.Header().Get("Content-Length"); cl != "" && cl != strconv.Itoa(len(body)) && c.Predict.Body != "redirect" {
		s.mismatch(desc("body", fmt.Sprintf("the response announces Content-Length %s (set by the handler before the helper: %q) and carries %d bytes: a server cuts it or drops the connection", cl, renderAnnounce, len(body))), c)
		return
	}
	same := func(got any) bool { return reflect.DeepEqual(got, v) }
	decodeJSON := func(bs []byte) bool {
		switch v.(type) {
		case string:
			var g string
			return json.Unmarshal(bs, &g) == nil && same(g)
		case []byte:
			var g []byte
			return json.Unmarshal(bs, &g) == nil && (same(g) || (len(g) == 0 && len(v.([]byte)) == 0))
		case renderStruct:
			var g renderStruct
			return json.Unmarshal(bs, &g) == nil && (same(g) || (len(g.Tags) == 0 && len(v.(renderStruct).Tags) == 0 && g.ID == v.(renderStruct).ID && g.Title == v.(renderStruct).Title))
		default:
			var g any
			return json.Unmarshal(bs, &g) == nil && same(g)
		}
	}
	okBody := true
	switch c.Predict.Body {
	case "empty":
		okBody = len(body) == 0
	case "redirect":
		okBody = w.Header().Get("Location") == "/elsewhere"
	case "message":
		okBody = strings.TrimSpace(string(body)) == "the message"
	case "raw":
		want := asBytes(v)
		if c.H == "JSONBytes" {
			okBody = decodeJSON(body)
		} else {
			okBody = bytes.Equal(body, want)
		}
	case "json":
		okBody = decodeJSON(body)
	case "callback(json);":
		okBody = bytes.HasPrefix(body, []byte("cb(")) && bytes.HasSuffix(body, []byte(");")) && decodeJSON(body[3:len(body)-2])
	case "xml":
		switch x := v.(type) {
		case renderStruct:
			var g renderStruct
			okBody = bytes.HasPrefix(body, []byte(xml.Header)) && xml.Unmarshal(body, &g) == nil && g.ID == x.ID && g.Title == x.Title && len(g.Tags) == len(x.Tags)
		case string:
			var g string
			okBody = xml.Unmarshal(body, &g) == nil && (g == x || strings.ContainsAny(x, "\x00\x1f\r "))
		case []byte:
			okBody = bytes.HasPrefix(body, []byte(xml.Header))
		}
	}
	if !okBody {
		s.mismatch(desc("body", fmt.Sprintf("body %q does not decode back to the value (shape %s)", body, c.Predict.Body)), c)
	}
}

// renderNamed: a value with a String method (value receiver); what it renders as is its encoding, like any other struct
type renderNamed struct {
	A int    `json:"a" xml:"a"`
	B string `json:"b" xml:"b"`
}

func (n renderNamed) String() string { return "named#" + n.B }

func renderAccept(s *Summary, c *renderCase) {
	// the value: a struct, a struct with a String method, and a typed nil pointer of such a type (a lookup that found nothing)
	for vi, obj := range []any{renderStruct{ID: 3, Title: "t"}, renderNamed{A: 1, B: "x"}, (*renderNamed)(nil), (*url.URL)(nil)} {
		renderAcceptValue(s, c, vi, obj)
	}
}

func renderAcceptValue(s *Summary, c *renderCase, vi int, obj any) {
	for _, sep := range []string{",", ", ", " , "} {
		w := httptest.NewRecorder()
		req := &http.Request{Method: "GET", URL: &url.URL{Path: "/"}, Header: http.Header{}, Proto: "HTTP/1.1"}
		if len(c.L) > 0 {
			req.Header.Set("Accept", strings.Join(c.L, sep))
		}
		var err error
		var pan any
		func() {
			defer func() { pan = recover() }()
			err = render.Auto(w, req, obj)
		}()
		s.Compared++
		got := "unsupported"
		ct := w.Header().Get("Content-Type")
		switch {
		case pan != nil:
			got = fmt.Sprintf("panic: %v", pan)
		case err != nil:
			got = "unsupported"
		case strings.HasPrefix(ct, "application/json"):
			got = "json"
		case strings.HasPrefix(ct, "application/xml"), strings.HasPrefix(ct, "text/xml"):
			got = "xml"
		case strings.HasPrefix(ct, "text/plain"):
			got = "text"
		default:
			got = "nothing written (Content-Type " + ct + ")"
		}
		if pan == nil && vi >= 2 && c.Pick == "xml" {
			continue // (what encoding/xml makes of a nil pointer is not constrained)
		}
		if got != c.Pick {
			s.mismatch(map[string]any{"kind": "render", "aspect": "negotiation", "what": fmt.Sprintf("Accept: %q, value %#v -> render.Auto answers %s (err=%v), the first supported type listed is %s",
				strings.Join(c.L, sep), obj, got, err, c.Pick)}, c)
			return
		}
		if vi == 1 && (c.Pick == "text" || c.Pick == "json") {
			var back renderNamed
			if json.Unmarshal(w.Body.Bytes(), &back) != nil || back != obj.(renderNamed) {
				s.mismatch(map[string]any{"kind": "render", "aspect": "body", "what": fmt.Sprintf("Accept: %q, value %#v -> render.Auto (%s): body %q does not decode back to the value",
					strings.Join(c.L, sep), obj, c.Pick, w.Body.String())}, c)
				return
			}
		}
	}
}

var renderOptNo int

// renderJSONOpts: the JSON renderer with its options in turn (plain, HTML not escaped, indented, both): the body decodes
// back to the value with every one of them
func renderJSONOpts() render.JSONRenderer {
	return []render.JSONRenderer{{}, {NotEscape: true}, {Indent: "  "}, {NotEscape: true, Indent: "\t"}}[renderOptNo%4]
}

// goneWriter: the response writer of a client that has gone away
type goneWriter struct{ hdr http.Header }

func (g *goneWriter) Header() http.Header       { return g.hdr }
func (g *goneWriter) WriteHeader(int)           {}
func (g *goneWriter) Write([]byte) (int, error) { return 0, errors.New("write: broken pipe") }
