package main

import (
	"encoding/json"
	"fmt"
	"net/http"
	"net/http/httptest"
	"net/url"
	"sort"
	"strings"
	"sync"

	"github.com/gookit/rux"
)

// family "resolve": binds RuxResolve (spec/RuxResolve.tla) to Router.Match and Router.ServeHTTP.
// Cell codes: 0 notfound | r direct | 100+r via HEAD->GET | 200+r via '/*' fallback | 1000+bitmask(allowed methods).

type resolveLine struct {
	T    []matchTableEntry `json:"t"`
	Opts struct {
		Hmna   bool     `json:"hmna"`
		Hfb    bool     `json:"hfb"`
		Icpt   []string `json:"icpt"`
		Strict bool     `json:"strict"`
	} `json:"opts"`
	NQ   []int            `json:"nq"` // per requested path: the path it is resolved as (its normal form under the router's mode)
	EffQ int              `json:"effq"`
	Res  map[string][]int `json:"res"`
}

type resolveState struct {
	hdr struct {
		Pool    []string   `json:"pool"`
		Paths   [][]string `json:"paths"`
		QSeq    []int      `json:"qseq"`
		Methods []string   `json:"methods"`
	}
	paths []string
	mat   []map[int][]map[string]string
	jobs  chan resolveLine
	wg    sync.WaitGroup
	sum   *Summary
	mu    sync.Mutex
}

var resolveSt = &resolveState{}

func init() {
	families["resolve"] = &family{replay: resolveReplay, finish: func(s *Summary) {
		if resolveSt.jobs != nil {
			close(resolveSt.jobs)
			resolveSt.wg.Wait()
		}
	}}
}

func resolveReplay(s *Summary, raw json.RawMessage) {
	st := resolveSt
	var probe map[string]json.RawMessage
	if err := json.Unmarshal(raw, &probe); err != nil {
		fatal("bad resolve line: %v", err)
	}
	switch {
	case probe["hdr"] != nil:
		if err := json.Unmarshal(raw, &st.hdr); err != nil {
			fatal("bad hdr: %v", err)
		}
		st.paths = make([]string, len(st.hdr.Paths)+1)
		for i, p := range st.hdr.Paths {
			st.paths[i+1] = tokStr(p)
		}
		st.mat = make([]map[int][]map[string]string, len(st.hdr.Pool)+1)
		st.sum = s
		s.Cases--
	case probe["pat"] != nil:
		var pl struct {
			Pat   int         `json:"pat"`
			Cells []matchCell `json:"cells"`
		}
		if err := json.Unmarshal(raw, &pl); err != nil {
			fatal("bad pat line: %v", err)
		}
		m := map[int][]map[string]string{}
		for _, c := range pl.Cells {
			for _, b := range c.B {
				bm := map[string]string{}
				for _, nv := range b {
					bm[nv[0].(string)] = joinChars(nv[1])
				}
				m[c.Q] = append(m[c.Q], bm)
			}
		}
		st.mat[pl.Pat] = m
		s.Cases--
	case probe["t"] != nil:
		var l resolveLine
		if err := json.Unmarshal(raw, &l); err != nil {
			fatal("bad resolve table line: %v", err)
		}
		if st.jobs == nil {
			st.jobs = make(chan resolveLine, 64)
			for w := 0; w < 16; w++ {
				st.wg.Add(1)
				go func() {
					defer st.wg.Done()
					for j := range st.jobs {
						resolveRun(st, j)
					}
				}()
			}
		}
		st.jobs <- l
	default:
		s.Cases--
	}
}

func maskMethods(mask int) []string {
	out := []string{}
	for i, m := range nineMethods {
		if mask&(1<<i) != 0 {
			out = append(out, m)
		}
	}
	sort.Strings(out)
	return out
}

func paramsTag(ps rux.Params) string {
	keys := make([]string, 0, len(ps))
	for k := range ps {
		keys = append(keys, k)
	}
	sort.Strings(keys)
	parts := []string{}
	for _, k := range keys {
		parts = append(parts, k+"="+ps[k])
	}
	return strings.Join(parts, "&")
}

func resolveRun(st *resolveState, l resolveLine) {
	texts := make([]string, len(l.T))
	for i, e := range l.T {
		texts[i] = strings.Join(e.Ms, ",") + " " + st.hdr.Pool[e.P-1]
	}
	icpt := tokStr(l.Opts.Icpt)
	caseDoc := map[string]any{"table": texts, "hmna": l.Opts.Hmna, "hfb": l.Opts.Hfb, "intercept": icpt, "strict": l.Opts.Strict}
	report := func(aspect, what string, extra map[string]any) {
		d := map[string]any{"kind": "resolve", "aspect": aspect, "table": texts, "hmna": l.Opts.Hmna, "hfb": l.Opts.Hfb,
			"intercept": icpt, "strict": l.Opts.Strict, "what": what}
		for k, v := range extra {
			d[k] = v
		}
		st.mu.Lock()
		st.sum.mismatch(d, caseDoc)
		st.mu.Unlock()
	}
	type variant struct {
		name   string
		cache  int
		custom bool
		nfOnly bool // custom NotFound handlers, default NotAllowed
	}
	compared := 0
	for _, v := range []variant{{"plain", -1, false, false}, {"cache1", 1, false, false}, {"custom", -1, true, false}, {"cache3-custom", 3, true, false}, {"custom-notfound-only", -1, false, true}} {
		opts := []func(*rux.Router){}
		if l.Opts.Hmna {
			opts = append(opts, rux.HandleMethodNotAllowed)
		}
		if l.Opts.Hfb {
			opts = append(opts, rux.HandleFallbackRoute)
		}
		if len(l.Opts.Icpt) > 0 {
			opts = append(opts, rux.InterceptAll(icpt))
		}
		if l.Opts.Strict {
			opts = append(opts, rux.StrictLastSlash)
		}
		if v.cache >= 0 {
			opts = append(opts, cachingOpts(v.cache)...)
		}
		r := newRouter(opts...)
		routes := []*rux.Route{}
		regOK := true
		for i, e := range l.T {
			func() {
				defer func() {
					if rec := recover(); rec != nil {
						regOK = false
						report("registration-panic", fmt.Sprintf("registration of %s panicked: %v", texts[i], rec), nil)
					}
				}()
				tag := fmt.Sprintf("r%d", i+1)
				routes = append(routes, r.AddNamed(tag, st.hdr.Pool[e.P-1], func(c *rux.Context) {
					c.Text(200, tag+"|"+paramsTag(c.Params))
				}, e.Ms...))
			}()
		}
		if !regOK {
			continue
		}
		if v.nfOnly {
			r.NotFound(func(c *rux.Context) { c.Text(404, "NF") })
		}
		if v.custom {
			r.NotFound(func(c *rux.Context) { c.Text(404, "NF") })
			r.NotAllowed(func(c *rux.Context) {
				al, _ := c.SafeGet(rux.CTXAllowedMethods).([]string)
				al = append([]string{}, al...)
				sort.Strings(al)
				c.Text(405, "NA:"+strings.Join(al, ","))
			})
		}
		passes := 1
		if v.cache >= 0 {
			passes = 2
		}
		for _, m := range st.hdr.Methods {
			codes := l.Res[m]
			for x, q := range st.hdr.QSeq {
				path := st.paths[q]
				code := codes[x]
				effq := q
				if x < len(l.NQ) {
					effq = l.NQ[x]
				}
				if l.EffQ != 0 {
					effq = l.EffQ
				}
				for pass := 0; pass < passes; pass++ {
					where := fmt.Sprintf("%s %s on %v hmna=%v hfb=%v strict=%v intercept=%q (%s, pass %d)", m, path, texts, l.Opts.Hmna, l.Opts.Hfb, l.Opts.Strict, icpt, v.name, pass+1)
					ext := map[string]any{"method": m, "path": path, "router": v.name}
					// ---- Match
					var route *rux.Route
					var ps rux.Params
					var alm []string
					var pan any
					func() {
						defer func() { pan = recover() }()
						route, ps, alm = r.Match(m, path)
					}()
					compared++
					if pan != nil {
						report("lookup-panic", where+": Match panicked: "+fmt.Sprint(pan), ext)
						continue
					}
					got := 0
					if route != nil {
						got = -1
						for i, rt := range routes {
							if rt == route || (rt.Name() == route.Name() && rt.Path() == route.Path()) {
								got = i + 1
							}
						}
					}
					wantRoute := 0
					wantAllow := []string{}
					switch {
					case code >= 1000:
						wantAllow = maskMethods(code - 1000)
					case code > 0:
						wantRoute = code % 100
					}
					gotAllow := append([]string{}, alm...)
					sort.Strings(gotAllow)
					if got != wantRoute {
						report("resolution", fmt.Sprintf("%s: Match gives route #%d, C06 resolves to code %d (route #%d)", where, got, code, wantRoute), ext)
						continue
					}
					if strings.Join(gotAllow, ",") != strings.Join(wantAllow, ",") {
						report("allow", fmt.Sprintf("%s: allowed methods %v, C06 says %v", where, gotAllow, wantAllow), ext)
						continue
					}
					wantBody := ""
					if wantRoute > 0 {
						if code >= 200 { // fallback route: no params
							if len(ps) != 0 {
								report("params", fmt.Sprintf("%s: fallback route with params %v", where, ps), ext)
							}
							wantBody = fmt.Sprintf("r%d|", wantRoute)
						} else {
							allowed := st.mat[l.T[wantRoute-1].P][effq]
							okp := false
							for _, b := range allowed {
								okp = okp || paramsEqual(ps, b)
							}
							if !okp {
								report("params", fmt.Sprintf("%s: params %v not among %v", where, ps, allowed), ext)
							}
							wantBody = fmt.Sprintf("r%d|%s", wantRoute, paramsTag(ps))
						}
					}
					// ---- ServeHTTP
					req := &http.Request{Method: m, URL: &url.URL{Path: path}, Header: http.Header{}, Proto: "HTTP/1.1"}
					w := httptest.NewRecorder()
					func() {
						defer func() { pan = recover() }()
						r.ServeHTTP(w, req)
					}()
					compared++
					if pan != nil {
						report("lookup-panic", where+": ServeHTTP panicked: "+fmt.Sprint(pan), ext)
						continue
					}
					body := strings.TrimSpace(w.Body.String())
					switch {
					case wantRoute > 0:
						if w.Code != 200 || body != wantBody {
							report("response", fmt.Sprintf("%s: response %d %q, expected 200 %q", where, w.Code, body, wantBody), ext)
						}
					case code >= 1000:
						if v.custom {
							if w.Code != 405 || body != "NA:"+strings.Join(wantAllow, ",") {
								report("response", fmt.Sprintf("%s: custom NotAllowed saw %d %q, expected 405 %q", where, w.Code, body, "NA:"+strings.Join(wantAllow, ",")), ext)
							}
						} else {
							wantStatus := 405
							if m == "OPTIONS" {
								wantStatus = 200
							}
							if w.Code != wantStatus || w.Header().Get("Allow") != strings.Join(wantAllow, ", ") {
								report("response", fmt.Sprintf("%s: response %d Allow=%q, expected %d Allow=%q", where, w.Code, w.Header().Get("Allow"), wantStatus, strings.Join(wantAllow, ", ")), ext)
							}
						}
					default:
						if w.Code != 404 || ((v.custom || v.nfOnly) && body != "NF") {
							report("response", fmt.Sprintf("%s: response %d %q, expected 404", where, w.Code, body), ext)
						}
					}
				}
			}
		}
	}
	st.mu.Lock()
	st.sum.Compared += compared
	if len(st.sum.Samples) < 2 {
		st.sum.sample(map[string]any{"table": texts, "hmna": l.Opts.Hmna, "hfb": l.Opts.Hfb, "intercept": icpt, "codes_GET": l.Res["GET"]})
	}
	st.mu.Unlock()
}
