package main

import (
	"context"
	"encoding/json"
	"fmt"
	"math/rand"
	"net/http"
	"net/http/httptest"
	"net/url"
	"os"
	"reflect"
	"runtime"
	"strconv"
	"strings"
	"sync"
	"sync/atomic"
	"time"

	"github.com/gookit/rux"
)

// family "serve": binds RuxServe (spec/RuxServe.tla) to concurrent Router.ServeHTTP calls.
// A case is a schedule prefix produced by TLC: [[request, "acquire"|"start"|"step"], ...] with the log every request
// must have produced after it. Requests run on their own goroutines; every instrumented handler parks on entry and the
// scheduler releases exactly the request named by the next schedule entry (a watchdog turns a stuck schedule into an
// inconclusive exit, never into a mismatch). After the prefix the remaining requests run to completion one by one.

type serveCase struct {
	Sched [][2]string        `json:"sched"`
	Logs  map[string][][]any `json:"logs"`
	Kinds map[string]string  `json:"kinds"`
	GLen  int                `json:"glen"`
	GCap  int                `json:"gcap"`
	MwLen int                `json:"mwlen"`
	MwCap int                `json:"mwcap"`
}

func init() {
	families["serve"] = &family{replay: serveReplay}
	families["servestress"] = &family{record: serveStress}
}

type parker struct {
	mu     sync.Mutex
	gates  map[string]chan struct{} // request -> gate the handler waits on
	parked chan string              // request announces it parked / finished
	logs   map[string][][]any
	ctxOf  map[string]*rux.Context
	owner  map[*rux.Context]string
	shared []string
	params map[string]string
}

// reqLog is the private log of one stress request. It travels with the request (context value), so the instrumented
// handlers share no memory and take no lock: a lock here would order the requests and hide races from the detector.
type reqLog struct {
	log     [][]any
	param   string
	bg      sync.WaitGroup
	copyBad string
}

type reqLogKey struct{}

func (p *parker) handler(tag []any) rux.HandlerFunc {
	return func(c *rux.Context) {
		if rl, ok := c.Req.Context().Value(reqLogKey{}).(*reqLog); ok {
			rl.log = append(rl.log, tag)
			if tag[0] == "main" && len(tag) > 1 && tag[1] == "a" {
				// a background job keeps a Copy() of the context (documented use) and reads it after the request is over,
				// while the pooled context already serves other requests
				c.Set("job", c.Req.Header.Get("X-Req"))
				cp := c.Copy()
				rl.bg.Add(1)
				go func() {
					defer rl.bg.Done()
					for i := 0; i < 50; i++ {
						if v, _ := cp.Get("job"); v != cp.Req.Header.Get("X-Req") {
							rl.copyBad = fmt.Sprintf("a Copy() of the context sees job=%v", v)
							return
						}
						runtime.Gosched()
					}
				}()
			}
			if tag[0] == "main" && len(tag) > 1 && tag[1] == "rd" {
				// internal redirect: re-dispatch the rewritten request on the same context, then go on using the context
				rid := c.Req.Header.Get("X-Req")
				c.Req.URL.Path = "/a"
				c.Router().HandleContext(c)
				// (read-only: the Copy() made by the inner main handler shares the data map with this context, so a Set here
				// would race with the background job of this very request - a property of Copy(), not of concurrent requests)
				for i := 0; i < 20; i++ {
					runtime.Gosched()
					if v, _ := c.Get("job"); v != rid || c.Req.Header.Get("X-Req") != rid {
						rl.copyBad = fmt.Sprintf("after HandleContext returned, the re-dispatching handler of request %s finds job=%v, X-Req=%s on its context", rid, v, c.Req.Header.Get("X-Req"))
						break
					}
				}
				rl.log = append(rl.log, []any{"after", "rd"})
				return
			}
			if tag[0] == "main" {
				rl.param = c.Param("id")
				c.Text(200, "main:"+c.Req.Header.Get("X-Req")+":"+rl.param)
			}
			return
		}
		id := c.Req.Header.Get("X-Req")
		p.mu.Lock()
		if o, ok := p.owner[c]; ok && o != id {
			p.shared = append(p.shared, fmt.Sprintf("request %s runs on the context of in-flight request %s", id, o))
		}
		p.owner[c] = id
		p.ctxOf[id] = c
		g := p.gates[id]
		p.mu.Unlock()
		if g != nil {
			p.parked <- id
			<-g
		}
		p.mu.Lock()
		p.logs[id] = append(p.logs[id], tag)
		if tag[0] == "main" {
			p.params[id] = c.Param("id")
		}
		p.mu.Unlock()
		if tag[0] == "main" && len(tag) > 1 && tag[1] == "p" {
			panic("boom from " + id)
		}
		if tag[0] == "main" && len(tag) > 1 && tag[1] == "rd" {
			c.Req.URL.Path = "/a"
			c.Router().HandleContext(c)
			// back in the re-dispatching handler: one more scheduling point, the handler still works with its context
			p.mu.Lock()
			g := p.gates[id]
			p.mu.Unlock()
			if g != nil {
				p.parked <- id
				<-g
			}
			p.mu.Lock()
			if o, ok := p.owner[c]; ok && o != id {
				p.shared = append(p.shared, fmt.Sprintf("request %s is still working with its context, which meanwhile serves request %s", id, o))
			}
			p.logs[id] = append(p.logs[id], []any{"after", "rd"})
			p.mu.Unlock()
			return
		}
		if tag[0] == "main" {
			c.Text(200, "main:"+id+":"+c.Param("id"))
		}
	}
}

// buildShape builds a router whose global middleware slice has (glen, gcap) and whose routes' own middleware slices
// have (mwlen, mwcap); returns false if Go's allocator did not produce the requested capacities.
func buildShape(p *parker, glen, gcap, mwlen, mwcap int, opts ...func(*rux.Router)) (*rux.Router, bool) {
	r := newRouter(opts...)
	gh := make([]rux.HandlerFunc, glen)
	for i := range gh {
		gh[i] = p.handler([]any{"g", i + 1})
	}
	if gcap > glen {
		for _, h := range gh {
			r.Use(h)
		}
	} else if glen > 0 {
		r.Use(gh...)
	}
	ok := cap(r.Handlers()) == gcap || glen == 0
	r.OnPanic = p.handler([]any{"hook"})
	for _, k := range []string{"a", "b", "p", "rd"} {
		path := "/" + k
		if k == "b" {
			path = "/b/{id}"
		}
		mw := make([]rux.HandlerFunc, mwlen)
		for i := range mw {
			mw[i] = p.handler([]any{"mw", k, i + 1})
		}
		var rt *rux.Route
		if mwcap > mwlen {
			rt = r.GET(path, p.handler([]any{"main", k}))
			for _, h := range mw {
				rt.Use(h)
			}
		} else {
			rt = r.GET(path, p.handler([]any{"main", k}), mw...)
		}
		ok = ok && (cap(rt.Handlers()) == mwcap || mwlen == 0)
	}
	return r, ok
}

func servePath(kind, id string) string {
	switch kind {
	case "a":
		return "/a"
	case "b":
		return "/b/" + id
	case "p":
		return "/p"
	case "rd":
		return "/rd"
	}
	return "/missing"
}

func soloLog(kind string, glen, mwlen int) [][]any {
	out := [][]any{}
	for i := 1; i <= glen; i++ {
		out = append(out, []any{"g", i})
	}
	if kind == "nf" {
		return out
	}
	for i := 1; i <= mwlen; i++ {
		out = append(out, []any{"mw", kind, i})
	}
	out = append(out, []any{"main", kind})
	if kind == "p" {
		out = append(out, []any{"hook"})
	}
	if kind == "rd" {
		out = append(out, soloLog("a", glen, mwlen)...)
		out = append(out, []any{"after", "rd"})
	}
	return out
}

func dropNF(l [][]any) [][]any {
	out := [][]any{}
	for _, e := range normLog(l) {
		if e[0] != "notfound" {
			out = append(out, e)
		}
	}
	return out
}

func serveReplay(s *Summary, raw json.RawMessage) {
	var c serveCase
	if err := json.Unmarshal(raw, &c); err != nil {
		fatal("bad serve case: %v", err)
	}
	s.sample(c)
	for _, variant := range []string{"plain", "cache1"} {
		serveRun(s, &c, variant)
	}
}

func serveRun(s *Summary, c *serveCase, variant string) {
	// one P: a context put back by one goroutine is what the next Get (on any goroutine) receives, so that sharing a
	// context too early becomes observable; only one request runs at a time anyway
	defer runtime.GOMAXPROCS(runtime.GOMAXPROCS(1))
	p := &parker{gates: map[string]chan struct{}{}, parked: make(chan string, 16), logs: map[string][][]any{},
		ctxOf: map[string]*rux.Context{}, owner: map[*rux.Context]string{}, params: map[string]string{}}
	opts := []func(*rux.Router){}
	if variant == "cache1" {
		opts = append(opts, rux.CachingWithNum(1))
	}
	r, shapeOK := buildShape(p, c.GLen, c.GCap, c.MwLen, c.MwCap, opts...)
	if !shapeOK {
		s.addInfo("shape_not_reproduced", 1)
	}
	desc := func(aspect, what string) map[string]any {
		return map[string]any{"kind": "serve", "aspect": aspect, "variant": variant, "glen": c.GLen, "gcap": c.GCap,
			"mwlen": c.MwLen, "mwcap": c.MwCap, "what": fmt.Sprintf("%s (global len/cap %d/%d, route mw len/cap %d/%d, %s; schedule %v)",
				what, c.GLen, c.GCap, c.MwLen, c.MwCap, variant, c.Sched)}
	}
	finished := map[string]bool{}
	started := map[string]bool{}
	bodies := map[string]*httptest.ResponseRecorder{}
	var wg sync.WaitGroup
	wait := func(id string) bool { // wait until request id parks again or finishes
		for {
			select {
			case x := <-p.parked:
				if strings.HasPrefix(x, "done:") {
					finished[x[5:]] = true
					p.mu.Lock()
					if cx := p.ctxOf[x[5:]]; cx != nil && p.owner[cx] == x[5:] {
						delete(p.owner, cx)
					}
					p.mu.Unlock()
					if x[5:] == id {
						return true
					}
					continue
				}
				if x == id {
					return true
				}
			case <-time.After(10 * time.Second):
				return false
			}
		}
	}
	launch := func(id string) bool {
		started[id] = true
		p.mu.Lock()
		p.gates[id] = make(chan struct{})
		p.mu.Unlock()
		w := httptest.NewRecorder()
		bodies[id] = w
		req := &http.Request{Method: "GET", URL: &url.URL{Path: servePath(c.Kinds[id], id)}, Header: http.Header{"X-Req": {id}}, Proto: "HTTP/1.1"}
		wg.Add(1)
		go func() {
			defer wg.Done()
			defer func() {
				if rec := recover(); rec != nil {
					p.mu.Lock()
					p.shared = append(p.shared, fmt.Sprintf("request %s panicked: %v", id, rec))
					p.mu.Unlock()
				}
				p.parked <- "done:" + id
			}()
			r.ServeHTTP(w, req)
		}()
		return wait(id)
	}
	step := func(id string) bool {
		if finished[id] || !started[id] {
			return true
		}
		p.mu.Lock()
		g := p.gates[id]
		p.gates[id] = make(chan struct{})
		p.mu.Unlock()
		close(g)
		return wait(id)
	}
	// a schedule that cannot go on: if two requests were seen on one context that is the finding, otherwise inconclusive
	giveUp := func(at string) bool {
		p.mu.Lock()
		sh := append([]string{}, p.shared...)
		p.mu.Unlock()
		if len(sh) > 0 {
			s.mismatch(desc("shared-context", strings.Join(sh, "; ")+" (the schedule then got stuck at "+at+")"), c)
			return true
		}
		fmt.Fprintf(os.Stderr, "stuck schedule %v at %v\n", c.Sched, at)
		os.Exit(4)
		return false
	}
	stuck := false
	for _, e := range c.Sched {
		id, act := e[0], e[1]
		switch act {
		case "start":
			if started[id] {
				continue
			}
			stuck = !launch(id)
		case "step":
			stuck = !step(id)
		}
		if stuck {
			if giveUp(fmt.Sprint(e)) {
				return
			}
		}
	}
	s.Compared++
	// logs after the prefix
	p.mu.Lock()
	for id, want := range c.Logs {
		got := p.logs[id]
		w := dropNF(want)
		if !(len(got) == 0 && len(w) == 0) && !reflect.DeepEqual(got, w) {
			s.mismatch(desc("interference", fmt.Sprintf("after the schedule prefix request %s (route %s) has run %v, alone it runs %v", id, c.Kinds[id], got, w)), c)
			p.mu.Unlock()
			goto drain
		}
	}
	p.mu.Unlock()
drain:
	// run everything to completion, one request after the other
	for id := range c.Kinds {
		if !started[id] {
			if _, inCase := c.Logs[id]; !inCase {
				continue
			}
			if !launch(id) {
				if giveUp("launch " + id) {
					return
				}
			}
		}
		for !finished[id] {
			if !step(id) {
				if giveUp("step " + id) {
					return
				}
			}
		}
	}
	wg.Wait()
	p.mu.Lock()
	defer p.mu.Unlock()
	for id, kind := range c.Kinds {
		if !started[id] {
			continue
		}
		want := soloLog(kind, c.GLen, c.MwLen)
		got := p.logs[id]
		if !(len(got) == 0 && len(want) == 0) && !reflect.DeepEqual(got, want) {
			s.mismatch(desc("interference", fmt.Sprintf("request %s (route %s) ran %v, alone it runs %v", id, kind, got, want)), c)
			return
		}
		w := bodies[id]
		switch kind {
		case "nf":
			if w.Code != 404 {
				s.mismatch(desc("interference", fmt.Sprintf("request %s for a missing path answered %d", id, w.Code)), c)
				return
			}
		case "p":
		case "rd":
			if w.Body.String() != "main:"+id+":" {
				s.mismatch(desc("interference", fmt.Sprintf("re-dispatched request %s got the body %q", id, w.Body.String())), c)
				return
			}
		case "b":
			if w.Body.String() != "main:"+id+":"+id || p.params[id] != id {
				s.mismatch(desc("interference", fmt.Sprintf("request %s for /b/%s got body %q, param id=%q", id, id, w.Body.String(), p.params[id])), c)
				return
			}
		default:
			if w.Body.String() != "main:"+id+":" {
				s.mismatch(desc("interference", fmt.Sprintf("request %s got the body %q", id, w.Body.String())), c)
				return
			}
		}
	}
	if len(p.shared) > 0 {
		s.mismatch(desc("shared-context", strings.Join(p.shared, "; ")), c)
	}
}

// serveStress: real goroutines hammer router shapes drawn from the seed (built with -race by the check); every request's
// log/params/body is compared with its solo prediction and written as a trace line for TLC (spec/trace/TraceServe.tla).
// serveColdStarts: the very first requests of a fresh router arrive together (what a router sets up on first use - a
// fallback chain, a cache, a compiled pattern - is set up by several requests at once): many fresh routers, four first
// requests each, released by a barrier; judged by the race detector and by the answers
func serveColdStarts(s *Summary, rounds int) {
	for t := 0; t < rounds; t++ {
		opts := []func(*rux.Router){rux.HandleMethodNotAllowed}
		if t%2 == 0 {
			opts = append(opts, cachingOpts(1+t%3)...)
		}
		r := newRouter(opts...)
		if t%3 != 0 {
			r.Use(nopHandler)
		}
		r.GET("/b/{id}", func(c *rux.Context) { c.Text(200, "b:"+c.Param("id")) })
		r.POST("/onlypost", nopHandler)
		reqs := [][3]string{{"GET", "/missing", "404"}, {"GET", "/missing2", "404"}, {"GET", "/onlypost", "405"}, {"PUT", "/onlypost", "405"}, {"GET", "/b/1", "b:1"}, {"GET", "/b/2", "b:2"}}
		start := make(chan struct{})
		var wg sync.WaitGroup
		var mu sync.Mutex
		for i := 0; i < 4; i++ {
			rq := reqs[(t+i*(1+t%2))%len(reqs)]
			wg.Add(1)
			go func(rq [3]string) {
				defer wg.Done()
				<-start
				w := httptest.NewRecorder()
				var pan any
				func() {
					defer func() { pan = recover() }()
					r.ServeHTTP(w, &http.Request{Method: rq[0], URL: &url.URL{Path: rq[1]}, Header: http.Header{}, Proto: "HTTP/1.1"})
				}()
				got := w.Body.String()
				if w.Code != 200 {
					got = strconv.Itoa(w.Code)
				}
				if pan != nil || got != rq[2] {
					mu.Lock()
					s.mismatch(map[string]any{"kind": "serve", "aspect": "interference", "what": fmt.Sprintf(
						"one of the four first requests of a fresh router: %s %s answered %q (panic %v), alone it is answered %q", rq[0], rq[1], got, pan, rq[2])}, nil)
					mu.Unlock()
				}
			}(rq)
		}
		close(start)
		wg.Wait()
		s.Compared += 4
	}
}

func serveStress(s *Summary, rng *rand.Rand, n int, out *traceWriter) {
	serveColdStarts(s, 60)
	shapes := [][4]int{{3, 4, 0, 0}, {3, 3, 1, 1}, {0, 0, 3, 4}, {2, 2, 5, 6}, {5, 8, 2, 2}, {1, 1, 0, 0}, {3, 4, 3, 4}, {0, 0, 0, 0}}
	for t := 0; t < n; t++ {
		sh := shapes[(t+rng.Intn(len(shapes)))%len(shapes)]
		if t >= len(shapes) {
			sh = [4]int{rng.Intn(6), 0, rng.Intn(6), 0}
		}
		p := &parker{gates: map[string]chan struct{}{}, parked: make(chan string, 16), logs: map[string][][]any{},
			ctxOf: map[string]*rux.Context{}, owner: map[*rux.Context]string{}, params: map[string]string{}}
		opts := []func(*rux.Router){}
		cacheCap := -1
		if t%2 == 0 {
			cacheCap = (t/2 + 1) % 3
			opts = append(opts, cachingOpts(cacheCap)...)
		}
		if rng.Intn(2) == 0 || t%4 >= 2 {
			opts = append(opts, rux.HandleMethodNotAllowed)
		}
		encoded := t%3 == 1 // UseEncodedPath: routes are matched on the escaped path, parameters are the escaped segments
		if encoded {
			opts = append(opts, rux.UseEncodedPath)
		}
		grow := sh[1] > sh[0] || (t >= len(shapes) && rng.Intn(2) == 0)
		gcap, mwcap := sh[0], sh[2]
		if grow {
			gcap, mwcap = sh[0]+1, sh[2]+1
		}
		r, _ := buildShape(p, sh[0], gcap, sh[2], mwcap, opts...)
		r.Add("/onlypost", p.handler([]any{"main", "p"}), "POST", "PUT", "DELETE") // (several methods in non-alphabetical order: the Allow list of a 405 gets sorted)
		// a HEAD route of its own next to the GET route of the same dynamic pattern (a cheap "stat"): whichever of the two a
		// request asks for, it gets that one - also from the route cache, also when both are in flight for one URL
		r.HEAD("/b/{id}", func(c *rux.Context) {
			if rl, ok := c.Req.Context().Value(reqLogKey{}).(*reqLog); ok {
				rl.log = append(rl.log, []any{"main", "hb"})
				rl.param = c.Param("id")
			}
			c.SetStatus(204)
		})
		// a dynamic route without variables whose handler writes into the (empty) parameter map it was given: the map is
		// the request's own
		r.GET("/o[.html]", func(c *rux.Context) {
			rl, ok := c.Req.Context().Value(reqLogKey{}).(*reqLog)
			if !ok {
				return
			}
			rid := c.Req.Header.Get("X-Req")
			if c.Params != nil {
				c.Params["who"] = rid
				runtime.Gosched()
				if c.Params["who"] != rid || len(c.Params) != 1 {
					rl.copyBad = fmt.Sprintf("request %s wrote who=%s into its Params and reads back %v", rid, rid, c.Params)
				}
			}
			rl.log = append(rl.log, []any{"main", "o"})
			c.Text(200, "main:"+rid+":")
		})
		// a later registered route of the same bucket that matches everything /b/{id} matches: it never wins, whatever else
		// goes on (the read-only views of the route table - String(), Routes(), GetRoute() - are called while requests are served)
		r.GET("/b/{aa:.+}", func(c *rux.Context) { c.Text(200, "shadowed route") })
		// a route whose middleware puts a wrapper of its own in place of the response writer for ITS request (a tagging
		// writer); the wrapper must not be there for any other request
		r.GET("/w", func(c *rux.Context) {
			rl, ok := c.Req.Context().Value(reqLogKey{}).(*reqLog)
			if !ok {
				return
			}
			rid := c.Req.Header.Get("X-Req")
			rl.log = append(rl.log, []any{"main", "w"})
			c.Text(200, "main:"+rid+":")
		}, func(c *rux.Context) {
			c.Resp = &tagWriter{ResponseWriter: c.Resp, tag: "[" + c.Req.Header.Get("X-Req") + "]"}
			c.Next()
		})
		if t%4 >= 2 {
			// an application's own 405 handler that edits the list of allowed methods it was given (its request's data)
			r.NotAllowed(func(c *rux.Context) {
				al, _ := c.SafeGet(rux.CTXAllowedMethods).([]string)
				// the list is this request's own: nobody has touched it before ...
				for _, m := range al {
					if m != strings.ToUpper(m) {
						if rl, ok := c.Req.Context().Value(reqLogKey{}).(*reqLog); ok {
							rl.copyBad = fmt.Sprintf("the list of allowed methods given to the 405 handler was edited by another request: %v", al)
						}
					}
				}
				// ... and it may edit it (here: lower-case spelling for its own page)
				for i := range al {
					al[i] = strings.ToLower(al[i])
				}
				c.SetHeader("Allow", strings.ToUpper(strings.Join(al, ",")))
				c.SetStatus(405)
			})
		}
		workers := 2 + rng.Intn(7)
		per := 150 + rng.Intn(150)
		var finished int64 // requests that have returned: the watchdog below reports when none does for a long time
		var wg sync.WaitGroup
		var mu sync.Mutex
		bad := []string{}
		kinds := []string{"a", "b", "nf", "b", "a", "na", "rd", "hb", "o", "w"}
		for w := 0; w < workers; w++ {
			wg.Add(1)
			wr := rand.New(rand.NewSource(rng.Int63()))
			go func(w int) {
				defer wg.Done()
				for i := 0; i < per; i++ {
					kind := kinds[wr.Intn(len(kinds))]
					if wr.Intn(25) == 0 { // an admin page / a health check looks at the route table
						_ = r.String()
						_ = r.Routes()
						_ = r.GetRoute("nothing")
						_ = len(r.NamedRoutes())
					}
					id := fmt.Sprintf("w%d-%d", w, i)
					if kind == "b" && wr.Intn(2) == 0 {
						id = fmt.Sprintf("k%d", wr.Intn(3)) // repeated dynamic paths: cache hits
					}
					if kind == "b" && encoded {
						id = fmt.Sprintf("e%%25%d", wr.Intn(3)) // an escaped '%' in the segment; a few values, so that cache hits occur
					}
					if kind == "hb" && !encoded {
						id = fmt.Sprintf("k%d", wr.Intn(3)) // the same few URLs the GET requests use
					}
					rid := fmt.Sprintf("%s#%d.%d", id, w, i)
					path := servePath(kind, id)
					reqMethod := "GET"
					if kind == "hb" {
						path, reqMethod = servePath("b", id), "HEAD"
					}
					if kind == "o" {
						path = []string{"/o", "/o.html"}[wr.Intn(2)]
					}
					if kind == "na" {
						path = "/onlypost"
					}
					if kind == "w" {
						path = "/w"
					}
					rec := httptest.NewRecorder()
					rl := &reqLog{}
					u := &url.URL{Path: path}
					if dec, err := url.PathUnescape(path); err == nil && dec != path {
						u = &url.URL{Path: dec, RawPath: path}
					}
					req := (&http.Request{Method: reqMethod, URL: u, Header: http.Header{"X-Req": {rid}}, Proto: "HTTP/1.1"}).
						WithContext(context.WithValue(context.Background(), reqLogKey{}, rl))
					func() {
						defer func() {
							if pv := recover(); pv != nil {
								mu.Lock()
								bad = append(bad, fmt.Sprintf("%s %s: ServeHTTP panicked: %v", kind, path, pv))
								mu.Unlock()
							}
						}()
						r.ServeHTTP(rec, req)
					}()
					atomic.AddInt64(&finished, 1)
					got, par := rl.log, rl.param
					if wr.Intn(4) == 0 || kind == "rd" || kind == "o" || kind == "na" {
						rl.bg.Wait()
						if rl.copyBad != "" {
							mu.Lock()
							bad = append(bad, fmt.Sprintf("%s %s: %s", kind, path, rl.copyBad))
							mu.Unlock()
						}
					}
					k2 := kind
					if kind == "na" {
						k2 = "nf"
					}
					want := soloLog(k2, sh[0], sh[2])
					if kind == "o" {
						want = append(soloLog("nf", sh[0], 0), []any{"main", "o"})
					}
					if kind == "w" {
						want = append(soloLog("nf", sh[0], 0), []any{"main", "w"})
					}
					if kind == "hb" { // global middleware, then the HEAD route's handler (the route has no middleware of its own)
						want = append(soloLog("nf", sh[0], 0), []any{"main", "hb"})
					}
					okc := (len(got) == 0 && len(want) == 0) || reflect.DeepEqual(got, want)
					switch kind {
					case "a", "rd", "o":
						okc = okc && rec.Body.String() == "main:"+rid+":"
					case "w":
						okc = okc && rec.Body.String() == "["+rid+"]main:"+rid+":"
					case "b":
						okc = okc && rec.Body.String() == "main:"+rid+":"+id && par == id
					case "hb":
						okc = okc && rec.Code == 204 && par == id && rec.Body.Len() == 0
					case "nf":
						okc = okc && rec.Code == 404
					case "na":
						okc = okc && (rec.Code == 405 || rec.Code == 404)
					}
					if !okc {
						mu.Lock()
						bad = append(bad, fmt.Sprintf("%s %s: ran %v body %q code %d param %q, alone: %v", kind, path, got, rec.Body.String(), rec.Code, par, want))
						mu.Unlock()
					}
					mu.Lock()
					if out.n < 4000 && kind != "hb" && kind != "o" && kind != "w" {
						out.emit(map[string]any{"op": "req", "kind": k2, "glen": sh[0], "mwlen": sh[2], "log": normLogOrEmpty(got), "code": rec.Code})
					}
					mu.Unlock()
				}
			}(w)
		}
		// every request returns: when no request has returned for 20 s while requests are outstanding, the router is stuck
		// (requests blocking each other for ever are not independent of each other); the blocked goroutines are left behind
		allDone := make(chan struct{})
		go func() { wg.Wait(); close(allDone) }()
		last, idle := int64(-1), 0
	waiting:
		for {
			select {
			case <-allDone:
				break waiting
			case <-time.After(2 * time.Second):
				if now := atomic.LoadInt64(&finished); now != last {
					last, idle = now, 0
				} else if idle++; idle >= 10 {
					s.mismatch(map[string]any{"kind": "serve", "aspect": "interference", "shape": sh, "cache": cacheCap,
						"what": fmt.Sprintf("under %d concurrent workers (global/route mw %v, cache %d): no request has returned for 20 s, %d of %d have been served: the requests block each other",
							workers, sh, cacheCap, now, workers*per)}, map[string]any{"shape": sh})
					s.Cases++
					return
				}
			}
		}
		if cacheCap >= 0 {
			// burst of concurrent lookups of a few cached dynamic paths (hits, misses and evictions racing)
			for w := 0; w < 8; w++ {
				wg.Add(1)
				go func(w int) {
					defer wg.Done()
					for i := 0; i < 400; i++ {
						id := fmt.Sprintf("k%d", (i+w)%3)
						rt, ps, _ := r.Match("GET", "/b/"+id)
						if rt == nil || ps["id"] != id {
							mu.Lock()
							bad = append(bad, fmt.Sprintf("concurrent Match(GET /b/%s) -> route %v params %v", id, rt != nil, ps))
							mu.Unlock()
						}
					}
				}(w)
			}
			wg.Wait()
			s.Compared += 8 * 400
		}
		s.Compared += workers * per
		for _, b := range bad {
			s.mismatch(map[string]any{"kind": "serve", "aspect": "interference", "shape": sh, "cache": cacheCap,
				"what": fmt.Sprintf("under %d concurrent workers (global/route mw %v, cache %d): %s", workers, sh, cacheCap, b)}, map[string]any{"shape": sh})
		}
		// context sharing is only judged by the schedule replay (deterministic bookkeeping); here a context may be
		// legitimately recycled between ServeHTTP returning and this worker noticing it
		s.Cases++
	}
}

func normLogOrEmpty(l [][]any) [][]any {
	if l == nil {
		return [][]any{}
	}
	return l
}

// tagWriter is an application's response-writer wrapper: it marks everything written through it.
type tagWriter struct {
	http.ResponseWriter
	tag string
}

func (t *tagWriter) Write(b []byte) (int, error) {
	n, err := t.ResponseWriter.Write(append([]byte(t.tag), b...))
	if n > len(t.tag) {
		n -= len(t.tag)
	}
	return n, err
}
