package main

import (
	"encoding/json"
	"fmt"
	"math/rand"
	"reflect"
	"strconv"
	"sync"
	"sync/atomic"

	"github.com/gookit/rux"
)

// family "lru": API-level binding of RuxCache (spec/RuxCache.tla) to cachedRoutes (route_cache.go).

type lruLast struct {
	Op  string `json:"op"`
	K   string `json:"k"`
	V   int    `json:"v"`
	Res bool   `json:"res"`
	Hit bool   `json:"hit"`
	N   int    `json:"n"`
}

type lruStep struct {
	Last lruLast  `json:"last"`
	Keys []string `json:"keys"`
	Vals []int    `json:"vals"`
}

type lruCase struct {
	Cap int       `json:"cap"`
	H   []lruStep `json:"h"`
}

func nopHandler(c *rux.Context) {}

func valRoute(v int) *rux.Route {
	return rux.NewNamedRoute(strconv.Itoa(v), "/v"+strconv.Itoa(v), nopHandler)
}

func routeVal(r *rux.Route) int {
	if r == nil {
		return -1
	}
	v, err := strconv.Atoi(r.Name())
	if err != nil {
		return -2
	}
	return v
}

func init() {
	families["lru"] = &family{replay: lruReplay, record: lruRecord}
	families["lruconc"] = &family{record: lruConcRecord}
}

var lruCaseNo int

func lruReplay(s *Summary, raw json.RawMessage) {
	var c lruCase
	if err := json.Unmarshal(raw, &c); err != nil {
		fatal("bad lru case: %v", err)
	}
	s.sample(c)
	cache := rux.NewCachedRoutes(c.Cap)
	// in every other case a value is ONE route object: storing the value again stores the identical pointer
	lruCaseNo++
	interned := map[int]*rux.Route{}
	mkVal := func(v int) *rux.Route {
		if lruCaseNo%2 == 1 {
			return valRoute(v)
		}
		if interned[v] == nil {
			interned[v] = valRoute(v)
		}
		return interned[v]
	}
	for i, st := range c.H {
		bad := ""
		switch st.Last.Op {
		case "set":
			if got := cache.Set(st.Last.K, mkVal(st.Last.V)); got != st.Last.Res {
				bad = fmt.Sprintf("Set returned %v, spec %v", got, st.Last.Res)
			}
		case "get":
			r, ok := cache.Get(st.Last.K)
			if ok != st.Last.Hit {
				bad = fmt.Sprintf("Get hit=%v, spec %v", ok, st.Last.Hit)
			} else if ok && routeVal(r) != st.Last.V {
				bad = fmt.Sprintf("Get value=%d, spec %d", routeVal(r), st.Last.V)
			}
		case "has":
			if ok := cache.Has(st.Last.K); ok != st.Last.Hit {
				bad = fmt.Sprintf("Has=%v, spec %v", ok, st.Last.Hit)
			}
		case "del":
			if ok := cache.Delete(st.Last.K); ok != st.Last.Res {
				bad = fmt.Sprintf("Delete=%v, spec %v", ok, st.Last.Res)
			}
		case "len":
			if n := cache.Len(); n != st.Last.N {
				bad = fmt.Sprintf("Len=%d, spec %d", n, st.Last.N)
			}
		default:
			fatal("unknown lru op %q", st.Last.Op)
		}
		s.Compared++
		if bad == "" {
			keys := cache.VerifKeys()
			if len(keys) == 0 && len(st.Keys) == 0 {
				// equal
			} else if !reflect.DeepEqual(keys, st.Keys) {
				bad = fmt.Sprintf("keys after %s(%s) = %v, spec %v", st.Last.Op, st.Last.K, keys, st.Keys)
			}
			vals := []int{}
			for _, r := range cache.VerifRoutes() {
				vals = append(vals, routeVal(r))
			}
			if bad == "" && !(len(vals) == 0 && len(st.Vals) == 0) && !reflect.DeepEqual(vals, st.Vals) {
				bad = fmt.Sprintf("values after %s(%s) = %v, spec %v", st.Last.Op, st.Last.K, vals, st.Vals)
			}
			if bad == "" && cache.VerifMapLen() != len(keys) {
				bad = fmt.Sprintf("hash index has %d keys, list %d", cache.VerifMapLen(), len(keys))
			}
			if bad == "" && len(keys) > c.Cap {
				bad = fmt.Sprintf("cache holds %d entries, capacity %d", len(keys), c.Cap)
			}
		}
		if bad != "" {
			s.mismatch(map[string]any{"kind": "lru", "step": i + 1, "op": st.Last.Op, "cap": c.Cap, "what": bad}, c)
			return
		}
	}
}

// lruRecord: long random op sequences on caches with capacities 0..6 over up to 9 keys; every event carries the
// arguments, the returned values and the key order after the operation. Validated by spec/trace/TraceCache.tla.
func lruRecord(s *Summary, rng *rand.Rand, n int, out *traceWriter) {
	for t := 0; t < n; t++ {
		capN := rng.Intn(7)
		nkeys := 1 + rng.Intn(9)
		cache := rux.NewCachedRoutes(capN)
		out.emit(map[string]any{"op": "reset", "cap": capN})
		ops := 20 + rng.Intn(180)
		for i := 0; i < ops; i++ {
			k := "k" + strconv.Itoa(rng.Intn(nkeys))
			ev := map[string]any{"k": k, "cap": capN}
			switch x := rng.Intn(10); {
			case x < 4:
				v := 1 + rng.Intn(50)
				ev["op"], ev["v"], ev["res"] = "set", v, cache.Set(k, valRoute(v))
			case x < 7:
				r, ok := cache.Get(k)
				ev["op"], ev["hit"] = "get", ok
				if ok {
					ev["v"] = routeVal(r)
				} else {
					ev["v"] = 0
				}
			case x < 8:
				ev["op"], ev["hit"] = "has", cache.Has(k)
			case x < 9:
				ev["op"], ev["res"] = "del", cache.Delete(k)
			default:
				ev["op"], ev["n"] = "len", cache.Len()
			}
			keys := cache.VerifKeys()
			vals := []int{}
			for _, r := range cache.VerifRoutes() {
				vals = append(vals, routeVal(r))
			}
			ev["keys"], ev["vals"] = keys, vals
			out.emit(ev)
		}
		s.Cases++
	}
}

// lruConcRecord: several goroutines operate on one cache; the hook (verif_on.go) assigns a sequence number and
// snapshots the key order while the cache lock is held, so the events in Seq order are the linearization.
func lruConcRecord(s *Summary, rng *rand.Rand, n int, out *traceWriter) {
	for t := 0; t < n; t++ {
		capN := rng.Intn(5)
		nkeys := 2 + rng.Intn(6)
		workers := 2 + rng.Intn(6)
		cache := rux.NewCachedRoutes(capN)
		var mu sync.Mutex
		evs := []rux.VerifCacheEvent{}
		rux.VerifSetCacheTracer(func(c any, ev rux.VerifCacheEvent) {
			if c != any(cache) {
				return
			}
			mu.Lock()
			evs = append(evs, ev)
			mu.Unlock()
		})
		var wg sync.WaitGroup
		var setCalls int64
		for w := 0; w < workers; w++ {
			wg.Add(1)
			r := rand.New(rand.NewSource(rng.Int63()))
			go func() {
				defer wg.Done()
				for i := 0; i < 150; i++ {
					k := "k" + strconv.Itoa(r.Intn(nkeys))
					switch x := r.Intn(10); {
					case x < 4:
						atomic.AddInt64(&setCalls, 1)
						cache.Set(k, valRoute(1))
					case x < 8:
						cache.Get(k)
					case x < 9:
						cache.Has(k)
					default:
						cache.Delete(k)
					}
				}
			}()
		}
		wg.Wait()
		rux.VerifSetCacheTracer(nil)
		// every Set call is one step of the cache, however busy the lock was when it arrived
		setEvents := int64(0)
		for _, e := range evs {
			if e.Op == "set" {
				setEvents++
			}
		}
		s.Compared++
		if setEvents != setCalls {
			s.mismatch(map[string]any{"kind": "lru-conc", "aspect": "lost-set", "what": fmt.Sprintf(
				"%d goroutines made %d Set calls on one cache (capacity %d), %d of them took effect (the others left no step in the lock-ordered history)",
				workers, setCalls, capN, setEvents)}, nil)
		}
		// order by Seq (assigned under the lock)
		bySeq := make(map[uint64]rux.VerifCacheEvent, len(evs))
		var lo, hi uint64
		for i, e := range evs {
			bySeq[e.Seq] = e
			if i == 0 || e.Seq < lo {
				lo = e.Seq
			}
			if e.Seq > hi {
				hi = e.Seq
			}
		}
		out.emit(map[string]any{"op": "reset", "cap": capN})
		for q := lo; q <= hi && len(evs) > 0; q++ {
			e, ok := bySeq[q]
			if !ok {
				continue
			}
			keys := e.Keys
			if keys == nil {
				keys = []string{}
			}
			out.emit(map[string]any{"op": "c" + e.Op, "k": e.Key, "cap": capN, "keys": keys})
		}
		s.Cases++
	}
}
