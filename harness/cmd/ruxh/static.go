package main

import (
	"encoding/json"
	"fmt"
	"net/http"
	"net/http/httptest"
	"net/url"
	"os"
	"path/filepath"
	"strings"

	"github.com/gookit/rux"
)

// family "static": binds RuxStatic (spec/RuxStatic.tla) to StaticDir / StaticFS / StaticFiles / StaticFile on a real
// temporary tree:   <tmp>/secret.txt  <tmp>/secret.css  <tmp>/root/{a.txt,a.css,index.html,sub/b.js}
// Every file holds a unique marker. Safety oracle (always): no response body contains the marker of a file outside the
// root; a StaticFiles body with any marker implies the extension condition. Precision oracle: where the model says
// "file", a 200 response must carry exactly that file; where it says "none"/"dir", no file marker may be served.

type staticRes struct {
	Kind string   `json:"kind"`
	Path []string `json:"path"`
}

type staticCase struct {
	Raw   []string             `json:"raw"`
	Dir   staticRes            `json:"dir"`
	Files map[string]staticRes `json:"files"`
}

type staticEnv struct {
	tmp, root string
	markers   map[string]string // relative name -> marker
	outside   []string
	routers   map[string]*rux.Router
}

var stEnv *staticEnv

func init() {
	families["static"] = &family{replay: staticReplay, finish: func(s *Summary) {
		if stEnv != nil {
			os.RemoveAll(stEnv.tmp)
		}
	}}
}

func staticSetup() *staticEnv {
	tmp, err := os.MkdirTemp("", "ruxstatic")
	if err != nil {
		fatal("%v", err)
	}
	e := &staticEnv{tmp: tmp, root: filepath.Join(tmp, "root"), markers: map[string]string{}, routers: map[string]*rux.Router{}}
	// a second copy of the tree in a directory NAMED LIKE THE URL PREFIX (<tmp>/pub/assets), with a secret beside it
	root2 := filepath.Join(tmp, "pub", "assets")
	for _, rt := range []string{e.root, root2} {
		os.MkdirAll(filepath.Join(rt, "sub"), 0o755)
		os.MkdirAll(filepath.Join(rt, "lib.js"), 0o755) // a directory whose name ends like an allowed extension
	}
	os.MkdirAll(filepath.Join(e.root, "sub"), 0o755)
	os.MkdirAll(filepath.Join(tmp, "root-internal"), 0o755) // a sibling whose name starts with the root's name
	write := func(rel, marker string) {
		if err := os.WriteFile(filepath.Join(tmp, rel), []byte(marker), 0o644); err != nil {
			fatal("%v", err)
		}
	}
	for rel, m := range map[string]string{"root/a.txt": "MARK-A-TXT", "root/a.css": "MARK-A-CSS", "root/index.html": "MARK-INDEX",
		"root/sub/b.js": "MARK-B-JS", "root/c.mjs": "MARK-C-MJS", "root/lib.js/index.html": "MARK-LIBJS-INDEX"} {
		write(rel, m)
		write("pub/assets/"+strings.TrimPrefix(rel, "root/"), m)
		e.markers[strings.TrimPrefix(rel, "root/")] = m
	}
	for rel, m := range map[string]string{"secret.txt": "SECRET-TXT", "secret.css": "SECRET-CSS", "root-internal/key.css": "SECRET-KEY", "pub/secret.txt": "SECRET-PUB-TXT",
		"pub/secret.css": "SECRET-PUB-CSS", "index.html": "SECRET-INDEX-BESIDE-THE-ROOT", "pub/index.html": "SECRET-PUB-INDEX"} {
		write(rel, m)
		e.outside = append(e.outside, m)
	}
	mk := func(name string, f func(r *rux.Router)) {
		r := rux.New()
		f(r)
		e.routers[name] = r
	}
	mk("dir", func(r *rux.Router) { r.StaticDir("/assets", e.root) })
	mk("dir-samename", func(r *rux.Router) { r.StaticDir("/assets", root2) })
	// a relative root, given after the process has changed its working directory: relative to where the process is NOW
	if err := os.Chdir(tmp); err != nil {
		fatal("%v", err)
	}
	mk("dir-relative", func(r *rux.Router) { r.StaticDir("/assets", "root") })
	// a relative root that starts with "../" (the same directory, reached through the parent)
	mk("dir-dotdot", func(r *rux.Router) { r.StaticDir("/assets", "../"+filepath.Base(tmp)+"/root") })
	mk("css-relative", func(r *rux.Router) { r.StaticFiles("/assets", "./root", "css") })
	// a file system of the application's own that joins the name it is given onto its root: it relies on being handed the
	// cleaned, rooted names net/http's file server produces
	mk("fs-naive", func(r *rux.Router) { r.StaticFS("/assets", naiveFS{e.root}) })
	// two registrations under ONE URL prefix with different roots and extensions: each serves from its own root
	mk("css-two-roots", func(r *rux.Router) {
		other := filepath.Join(tmp, "other") // a root of its own for the first registration (nothing secret in it)
		os.MkdirAll(other, 0o755)
		_ = os.WriteFile(filepath.Join(other, "a.txt"), []byte("OTHER-A-TXT"), 0o644)
		_ = os.WriteFile(filepath.Join(other, "a.css"), []byte("OTHER-A-CSS"), 0o644)
		r.StaticFiles("/assets", other, "txt")
		r.StaticFiles("/assets", e.root, "css")
	})
	// a root that does not exist yet when the routes are registered (unpacked by a later deploy step), with secrets beside it
	late := filepath.Join(tmp, "pub", "late")
	mk("dir-late", func(r *rux.Router) { r.StaticDir("/assets", late) })
	mk("css-late", func(r *rux.Router) { r.StaticFiles("/assets", late, "css") })
	os.MkdirAll(filepath.Join(late, "sub"), 0o755)
	os.MkdirAll(filepath.Join(late, "lib.js"), 0o755)
	for rel, m := range e.markers {
		write("pub/late/"+rel, m)
	}
	// the application has a global path variable named like the variable the static handlers use internally ("file", for
	// its own /download/{file} routes): the extension list of StaticFiles is still what decides
	rux.SetGlobalVar("file", `[\w.-]+`)
	mk("css-globalfile", func(r *rux.Router) {
		r.GET("/download/{file}", nopHandler)
		r.StaticFiles("/assets", e.root, "css")
	})
	delete(rux.GetGlobalVars(), "file")
	// a root whose name holds a '$' followed by letters (a directory really named like that), secrets beside it: the name is
	// a name, not a template
	dollar := filepath.Join(tmp, "pub", "$assets")
	os.MkdirAll(filepath.Join(dollar, "sub"), 0o755)
	os.MkdirAll(filepath.Join(dollar, "lib.js"), 0o755)
	for rel, m := range e.markers {
		write("pub/$assets/"+rel, m)
	}
	mk("css-dollar", func(r *rux.Router) { r.StaticFiles("/assets", dollar, "css") })
	mk("dir-dollar", func(r *rux.Router) { r.StaticDir("/assets", dollar) })
	// a caching router with a tiny cache and a SECOND mount (another URL prefix, the parent directory as its root): requests
	// for the other mount come in between; what /assets serves is still confined to its own root
	e.routers["css-cache2"] = newRouter(rux.CachingWithNum(2))
	e.routers["css-cache2"].StaticFiles("/assets", e.root, "css")
	e.routers["css-cache2"].StaticFiles("/priv", tmp, "css|txt")
	// three global middleware added one Use call each; the first one serves a nested request for an allowed file while the
	// measured request is in flight; a catch-all route below the same prefix answers what the static route does not match
	mk("css-nested", func(r *rux.Router) {
		r.Use(func(c *rux.Context) {
			if c.Req.Header.Get("X-Nested") == "" {
				r.ServeHTTP(httptest.NewRecorder(), &http.Request{Method: "GET", URL: &url.URL{Path: "/assets/a.css"}, Header: http.Header{"X-Nested": {"1"}}, Proto: "HTTP/1.1"})
			}
		})
		r.Use(nopHandler)
		r.Use(nopHandler)
		r.StaticFiles("/assets", e.root, "css")
		r.GET("/assets/{file:.+}", func(c *rux.Context) { c.Text(404, "no such asset") })
	})
	mk("fs", func(r *rux.Router) { r.StaticFS("/assets", http.Dir(e.root)) })
	mk("css", func(r *rux.Router) { r.StaticFiles("/assets", e.root, "css") })
	mk("cssjs", func(r *rux.Router) { r.StaticFiles("/assets", e.root, "css|js") })
	mk("one", func(r *rux.Router) { r.StaticFile("/assets/{any:.+}", filepath.Join(e.root, "a.txt")) })
	return e
}

type naiveFS struct{ root string }

func (n naiveFS) Open(name string) (http.File, error) { return os.Open(filepath.Join(n.root, name)) }

// staticTwin: handlers that must answer exactly like another one (same files, configured in another way)
var staticTwin = map[string]string{"dir-relative": "dir", "dir-dotdot": "dir", "css-relative": "css", "css-two-roots": "css", "dir-late": "dir", "css-late": "css", "css-globalfile": "css", "css-cache2": "css", "css-dollar": "css", "dir-dollar": "dir"}

func staticReplay(s *Summary, raw json.RawMessage) {
	var c staticCase
	if err := json.Unmarshal(raw, &c); err != nil {
		fatal("bad static case: %v", err)
	}
	if stEnv == nil {
		stEnv = staticSetup()
	}
	e := stEnv
	rawPath := "/assets/" + strings.Join(c.Raw, "/")
	u, err := url.Parse("http://example.com" + rawPath)
	if err != nil {
		s.addInfo("unparsable_urls", 1)
		return
	}
	if len(s.Samples) < 3 && len(c.Raw) == 3 {
		s.sample(map[string]any{"url": rawPath, "model_dir": c.Dir, "model_files_css": c.Files["css"]})
	}
	answers := map[string]string{}
	defer func() {
		for name, twin := range staticTwin {
			for k, a := range answers {
				if name == "css-two-roots" && !strings.HasSuffix(strings.TrimRight(rawPath, "/"), ".css") {
					continue // (other extensions belong to the first registration)
				}
				if strings.HasPrefix(k, name+"#") && answers[twin+"#"+strings.TrimPrefix(k, name+"#")] != a {
					s.mismatch(map[string]any{"kind": "static", "aspect": "precision", "handler": name, "what": fmt.Sprintf(
						"%s handler, request variant %s of %q: answered %q, the %s handler (same files) answered %q", name, strings.TrimPrefix(k, name+"#"), rawPath, a, twin,
						answers[twin+"#"+strings.TrimPrefix(k, name+"#")])}, c)
					return
				}
			}
		}
	}()
	for name, r := range e.routers {
		// variants of the same request: as parsed, and with a back-slash / NUL / trailing dot appended to the decoded path
		paths := []string{u.Path, strings.ReplaceAll(u.Path, "/", "\\"), u.Path + "\x00", u.Path + ".", "/assets//" + strings.TrimPrefix(u.Path, "/assets/")}
		for vi, p := range paths {
			w := httptest.NewRecorder()
			var pan any
			func() {
				defer func() { pan = recover() }()
				if name == "css-cache2" {
					for _, other := range []string{"/priv/secret.css", "/priv/secret.txt", "/priv/index.html", "/priv/secret.css"} {
						r.ServeHTTP(httptest.NewRecorder(), &http.Request{Method: "GET", URL: &url.URL{Path: other}, Header: http.Header{}, Proto: "HTTP/1.1"})
					}
				}
				r.ServeHTTP(w, &http.Request{Method: "GET", URL: &url.URL{Path: p}, Header: http.Header{}, Proto: "HTTP/1.1"})
			}()
			s.Compared++
			body := w.Body.String()
			answers[fmt.Sprintf("%s#%d", name, vi)] = fmt.Sprintf("%d %s", w.Code, body)
			desc := func(aspect, what string) map[string]any {
				return map[string]any{"kind": "static", "aspect": aspect, "handler": name, "what": fmt.Sprintf("%s handler, GET %q: %s", name, p, what)}
			}
			if pan != nil {
				s.mismatch(desc("panic", fmt.Sprintf("panicked: %v", pan)), c)
				continue
			}
			// safety: nothing from outside the root, ever
			for _, m := range e.outside {
				if strings.Contains(body, m) {
					s.mismatch(desc("confinement", fmt.Sprintf("response %d contains %s, the content of a file outside the root", w.Code, m)), c)
				}
			}
			served := ""
			for rel, m := range e.markers {
				if strings.Contains(body, m) {
					served = rel
				}
			}
			if name == "one" {
				if served != "" && served != "a.txt" {
					s.mismatch(desc("confinement", "StaticFile served "+served), c)
				}
				continue
			}
			if vi != 0 {
				// precision is only judged on the request as the model describes it
				if (name == "css" || name == "cssjs" || name == "css-relative" || name == "css-late" || name == "css-globalfile" || name == "css-cache2" || name == "css-nested" || name == "css-dollar") && served != "" {
					ok := strings.HasSuffix(served, ".css") || (name == "cssjs" && strings.HasSuffix(served, ".js"))
					if !ok {
						s.mismatch(desc("extension", "served "+served+" which does not have an allowed extension"), c)
					}
				}
				continue
			}
			model := c.Dir
			if name == "css" || name == "cssjs" {
				model = c.Files[name]
			}
			if name == "css-relative" || name == "css-late" || name == "css-globalfile" || name == "css-cache2" || name == "css-nested" || name == "css-dollar" {
				model = c.Files["css"]
			}
			if name == "css-two-roots" {
				continue // judged by confinement and by its twin only
			}
			switch model.Kind {
			case "file":
				want := strings.Join(model.Path, "/")
				if w.Code == 200 && served != want {
					s.mismatch(desc("precision", fmt.Sprintf("answered 200 with %q, the model serves %s", served, want)), c)
				}
				// redirects and errors are not constrained (confinement is a safety claim): eg "a.css/./" is a 500 in net/http
			default:
				// a directory may be listed or redirected, index.html may be served for it; otherwise no file content
				idx := strings.TrimPrefix(strings.Join(model.Path, "/")+"/index.html", "/")
				if served != "" && !(model.Kind == "dir" && served == idx && name != "css" && name != "cssjs" && name != "css-relative" && name != "css-late" && name != "css-globalfile" && name != "css-cache2" && name != "css-nested" && name != "css-dollar") {
					s.mismatch(desc("precision", fmt.Sprintf("answered %d with the content of %s, the model serves %s", w.Code, served, model.Kind)), c)
				}
			}
		}
	}
}
