package main

import (
	"encoding/json"
	"errors"
	"fmt"
	"io"
	"math/rand"
	"net/http"
	"net/http/httptest"
	"net/url"
	"os"
	"reflect"
	"strings"
	"time"

	"github.com/gookit/rux"
	"github.com/gookit/rux/pkg/handlers"
)

// family "chain": binds RuxChain (spec/RuxChain.tla) to Router.Use/Group/Add (+NotFound/NotAllowed/OnError/OnPanic),
// Context.Next/Abort/IsAborted and the response writer.
//
// A case: {"chain":[script...], "onerror":script|null, "hook":script|null, "kind":"route|notfound|notallowed",
//          "log":[["in",h,aborted]...], "under":[["WH",200],["W",n,acc],["FL"]] , "escaped":bool, "status":int, "length":int}
// A script is a list of ops (see RuxChain.tla). The chain is realised through real registration calls, split over
// global / group / route middleware and the main handler (all splits for n<=3, a seeded split otherwise).

type chainCase struct {
	Chain   [][][]any `json:"chain"`
	OnError [][]any   `json:"onerror"`
	Hook    [][]any   `json:"hook"`
	Kind    string    `json:"kind"`
	Log     [][]any   `json:"log"`
	Under   [][]any   `json:"under"`
	Escaped *bool     `json:"escaped"`
	Hooked  *bool     `json:"hooked"`
	CheckW  bool      `json:"checkw"`
	N       int       `json:"n"`
	Length  *int      `json:"length"` // MC_Writer lines: bytes accepted by the underlying writer
	G       int       `json:"g"`      // kind "redispatch": number of global middleware (chain = G ++ redispatcher ++ G ++ inner)
	B       int       `json:"b"`      // the nested chain starts after position b (the redispatcher, plus the never started tail)
	CLog    [][]any   `json:"clog"`   // the log of the cursor machine (the code as written), exported for chains beyond the sentinel
	Tail    int       `json:"tail"`
	Other   bool      `json:"other"` // kind "redispatch": the nested dispatch is served by ANOTHER router (B.HandleContext(c))   // 1: the redispatcher is a middleware of its route, the route's main handler follows it
}

// recWriter is the underlying http.ResponseWriter: it records every call and can reply with short writes / errors.
type recWriter struct {
	hdr   http.Header
	calls [][]any
	modes []string // reply mode per Write call, consumed in order (default full)
}

func (w *recWriter) Header() http.Header  { return w.hdr }
func (w *recWriter) WriteHeader(code int) { w.calls = append(w.calls, []any{"WH", code}) }
func (w *recWriter) Write(b []byte) (int, error) {
	mode := "full"
	if len(w.modes) > 0 {
		mode, w.modes = w.modes[0], w.modes[1:]
	}
	n := len(b)
	var err error
	switch mode {
	case "short":
		if n > 0 {
			n--
		}
		err = errors.New("short write")
	case "err":
		n, err = 0, errors.New("write failed")
	}
	w.calls = append(w.calls, []any{"W", len(b), n})
	return n, err
}
func (w *recWriter) Flush() { w.calls = append(w.calls, []any{"FL"}) }

// plainWriter hides everything but the three methods of http.ResponseWriter
type plainWriter struct{ w *recWriter }

func (p *plainWriter) Header() http.Header         { return p.w.Header() }
func (p *plainWriter) WriteHeader(code int)        { p.w.WriteHeader(code) }
func (p *plainWriter) Write(b []byte) (int, error) { return p.w.Write(b) }

type chainRun struct {
	outLen, outStatus int // Context.Length() / StatusCode() seen by the "out" op of handler 1 (the outermost frame)
	log               [][]any
	rw                *recWriter
	panicV            any
	entered           bool // an instrumented handler has run in this request
}

type panicToken struct{ id int }

// swallowWriter: a response writer of the application that swallows everything it is given
type swallowWriter struct{ hdr http.Header }

func (w *swallowWriter) Header() http.Header         { return w.hdr }
func (w *swallowWriter) WriteHeader(int)             {}
func (w *swallowWriter) Write(b []byte) (int, error) { return len(b), nil }

var writeAPI int

// chainOther: the router that serves the nested dispatch of a "redispatch" case with other=true
var chainOther *rux.Router

func opName(op []any) string { return op[0].(string) }
func opInt(op []any, i int) int {
	switch x := op[i].(type) {
	case float64:
		return int(x)
	case int:
		return x
	}
	fatal("op %v: argument %d is not a number", op, i)
	return 0
}

// callLib calls a middleware of pkg/handlers in place, after arranging the request so that it takes the named branch.
func callLib(c *rux.Context, name string) {
	switch name {
	case "favicon-hit", "favicon-miss":
		old := c.Req.URL.Path
		if name == "favicon-hit" {
			c.Req.URL.Path = handlers.FavIcon
		}
		defer func() { c.Req.URL.Path = old }()
		handlers.IgnoreFavIcon()(c)
	case "basicauth-none", "basicauth-bad", "basicauth-ok":
		c.Req.Header.Del("Authorization")
		if name == "basicauth-bad" {
			c.Req.SetBasicAuth("u", "wrong")
		} else if name == "basicauth-ok" {
			c.Req.SetBasicAuth("u", "pw")
		}
		defer c.Req.Header.Del("Authorization")
		handlers.HTTPBasicAuth(map[string]string{"u": "pw"})(c)
	case "timeout-fired":
		handlers.Timeout(-time.Second)(c) // the deadline has passed before the handlers below start
	case "timeout-idle":
		handlers.Timeout(time.Hour)(c)
	case "text200":
		c.Text(200, "abc")
	case "html200-empty":
		c.HTML(200, nil)
	case "json201":
		c.JSON(201, rux.M{"a": 1})
	case "jsonbytes200":
		c.JSONBytes(200, []byte("{}"))
	case "nocontent":
		c.NoContent()
	default:
		fatal("unknown lib middleware %q", name)
	}
}

// mkHandler turns a script into a rux handler; h is the 1-based position in the chain (0 = hook / OnError).
func mkHandler(run **chainRun, h int, script [][]any) rux.HandlerFunc {
	return func(c *rux.Context) {
		r := *run
		if !r.entered {
			// the first handler of a request: whatever earlier requests did (errors, aborts, panics), the context is pristine
			r.entered = true
			_, recovered := c.Get(rux.CTXRecoverResult)
			if len(c.Errors) != 0 || c.FirstError() != nil || c.Length() != -1 || recovered {
				r.log = append(r.log, []any{"residue", h, fmt.Sprintf("errors=%d length=%d recovered-value-of-an-earlier-panic=%v", len(c.Errors), c.Length(), recovered)})
			}
		}
		for _, op := range script {
			switch opName(op) {
			case "in":
				r.log = append(r.log, []any{"in", h, c.IsAborted()})
			case "out":
				r.log = append(r.log, []any{"out", h, c.IsAborted()})
				if h == 1 {
					r.outLen, r.outStatus = c.Length(), c.StatusCode()
				}
			case "next":
				c.Next()
			case "catchnext":
				handlers.PanicsHandler()(c)
			case "lib":
				callLib(c, op[1].(string))
			case "redispatch":
				c.Req.URL.Path = "/t"
				if chainOther != nil {
					chainOther.HandleContext(c) // a handler of router A hands its context to router B
				} else {
					c.Router().HandleContext(c)
				}
			case "subrouter":
				// another router mounted here: it serves the request on a context of its own, writing through c.Resp
				api := rux.New()
				inner := op[1].([]any)
				ihs := make([]rux.HandlerFunc, len(inner))
				for i, sc := range inner {
					script := [][]any{}
					for _, o := range sc.([]any) {
						script = append(script, o.([]any))
					}
					ihs[i] = mkHandler(run, 100+i+1, script)
				}
				api.Use(ihs[:len(ihs)-1]...)
				api.GET(c.Req.URL.Path, ihs[len(ihs)-1])
				rux.WrapHTTPHandler(api)(c)
			case "abort":
				c.Abort()
			case "abortStatus":
				c.AbortWithStatus(opInt(op, 1))
			case "status":
				c.SetStatus(opInt(op, 1))
			case "write":
				r.rw.modes = append(r.rw.modes, op[2].(string))
				data := strings.Repeat("x", opInt(op, 1))
				// the ways a handler can put bytes on the wire; all of them are one Write of the lazy writer
				writeAPI++
				switch api := writeAPI % 4; {
				case api == 1 && op[2] == "full":
					c.WriteBytes([]byte(data)) // (panics on a write error, so only where the underlying writer accepts everything)
				case api == 2:
					_, _ = io.WriteString(c.Resp, data)
				case api == 3 && len(data) > 0:
					_, _ = io.Copy(c.Resp, io.LimitReader(strings.NewReader(data), int64(len(data)))) // uses ReadFrom if the writer has one
				default:
					_, _ = c.Resp.Write([]byte(data))
				}
			case "flush":
				c.Resp.(http.Flusher).Flush()
			case "httpError":
				http.Error(c.Resp, strings.Repeat("e", opInt(op, 2)-1), opInt(op, 1))
			case "err":
				c.AddError(errors.New("boom"))
			case "panic":
				if len(op) > 1 && op[1] == "abort-sentinel" {
					panic(http.ErrAbortHandler) // the value net/http treats specially; for the router it is a panic like any other
				}
				panic(&panicToken{h})
			default:
				fatal("unknown op %v", op)
			}
		}
	}
}

func init() {
	families["chain"] = &family{replay: chainReplay}
}

func normLog(l [][]any) [][]any {
	out := make([][]any, len(l))
	for i, e := range l {
		ne := make([]any, len(e))
		for j, v := range e {
			switch x := v.(type) {
			case float64:
				ne[j] = int(x)
			default:
				ne[j] = v
			}
		}
		out[i] = ne
	}
	return out
}

// splits enumerates how a chain of n-1 middleware is divided: g global (g1 before the route is registered, the rest
// after), grp group middleware (outer/inner), the rest route middleware (variadic / later Route.Use).
type chainSplit struct{ gBefore, gAfter, outer, outUse, inner, inUse, variadic, later, fbTail int }

func allSplits(mw int) []chainSplit {
	out := []chainSplit{}
	var rec func(parts []int, left int)
	rec = func(parts []int, left int) {
		if len(parts) == 7 {
			out = append(out, chainSplit{parts[0], parts[1], parts[2], parts[3], parts[4], parts[5], parts[6], left, 0})
			return
		}
		for k := 0; k <= left; k++ {
			rec(append(append([]int{}, parts...), k), left-k)
		}
	}
	rec(nil, mw)
	return out
}

func randSplit(rng *rand.Rand, mw int) chainSplit {
	cuts := make([]int, 8)
	for i := 0; i < mw; i++ {
		cuts[rng.Intn(8)]++
	}
	return chainSplit{cuts[0], cuts[1], cuts[2], cuts[3], cuts[4], cuts[5], cuts[6], cuts[7], 0}
}

var chainRng = rand.New(rand.NewSource(seed()))

// chainLimit: a route whose chain has n handlers WITHOUT any global middleware (n-1 route/group middleware + main):
// registration must accept it iff the model says so; an accepted chain must run in order and Abort() at its first
// handler must stop it.
func chainLimit(s *Summary, n int, accepted bool) {
	for _, via := range []string{"GET", "group+GET", "group+prebuilt route", "group+Any", "GET, then a Use() on the live route that is refused"} {
		viaGroup := strings.HasPrefix(via, "group")
		for _, abortFirst := range []bool{false, true} {
			log := []int{}
			aborted := []bool{}
			mk := func(i int) rux.HandlerFunc {
				return func(c *rux.Context) {
					log = append(log, i)
					aborted = append(aborted, c.IsAborted())
					if abortFirst && i == 1 {
						c.Abort()
					}
				}
			}
			mw := make([]rux.HandlerFunc, n-1)
			for i := range mw {
				mw[i] = mk(i + 1)
			}
			r := rux.New()
			var pan any
			func() {
				defer func() { pan = recover() }()
				if viaGroup {
					half := len(mw) / 2
					r.Group("/g", func() {
						switch via {
						case "group+prebuilt route": // the route carries its middleware when it is attached inside the group
							rux.NewRoute("/x", mk(n), "GET").Use(mw[half:]...).AttachTo(r)
						case "group+Any":
							r.Any("/x", mk(n), mw[half:]...)
						default:
							r.GET("/x", mk(n), mw[half:]...)
						}
					}, mw[:half]...)
				} else {
					rt := r.GET("/g/x", mk(n), mw...)
					if via != "GET" {
						// a plugin tries to add more middleware than the limit allows to the registered route: refused, and the
						// route stays what it was
						func() {
							defer func() { _ = recover() }()
							rt.Use(make([]rux.HandlerFunc, 70)...)
						}()
					}
				}
			}()
			s.Compared++
			desc := func(what string) map[string]any {
				return map[string]any{"kind": "chain", "aspect": "limit", "chain_len": n, "what": fmt.Sprintf(
					"route with %d middleware + main (no global middleware, registered via %s): %s", n-1, via, what)}
			}
			if (pan == nil) != accepted {
				s.mismatch(desc(fmt.Sprintf("registration accepted=%v, the documented limit says %v", pan == nil, accepted)), map[string]any{"limit": n})
				return
			}
			if pan != nil {
				continue
			}
			rw := &recWriter{hdr: http.Header{}}
			r.ServeHTTP(rw, &http.Request{Method: "GET", URL: &url.URL{Path: "/g/x"}, Header: http.Header{}, Proto: "HTTP/1.1"})
			want := n
			if abortFirst {
				want = 1
			}
			okOrder := len(log) == want
			for i := range log {
				okOrder = okOrder && log[i] == i+1 && !aborted[i]
			}
			if !okOrder {
				s.mismatch(desc(fmt.Sprintf("abort at the first handler=%v: handlers run %v (IsAborted on entry %v), expected 1..%d without a spurious IsAborted", abortFirst, log, aborted, want)), map[string]any{"limit": n})
				return
			}
		}
	}
}

func chainReplay(s *Summary, raw json.RawMessage) {
	if strings.HasPrefix(string(raw), `{"limit"`) {
		var l struct {
			Limit []struct {
				N        int  `json:"n"`
				Accepted bool `json:"accepted"`
			} `json:"limit"`
		}
		if err := json.Unmarshal(raw, &l); err != nil {
			fatal("bad limit line: %v", err)
		}
		s.Cases--
		for _, e := range l.Limit {
			chainLimit(s, e.N, e.Accepted)
		}
		return
	}
	var c chainCase
	if err := json.Unmarshal(raw, &c); err != nil {
		fatal("bad chain case: %v", err)
	}
	if c.Kind == "" {
		c.Kind = "route"
	}
	n := len(c.Chain)
	var splits []chainSplit
	switch {
	case c.Kind != "route":
		splits = []chainSplit{{}}
		if (c.Kind == "notfound" || c.Kind == "notallowed") && n >= 3 && chainRunHook == nil {
			// the same chain divided differently between global middleware and fallback handlers: a single fallback handler
			splits = append(splits, chainSplit{fbTail: 1}, chainSplit{fbTail: 2})
		}
		if c.Kind == "redispatch" {
			c.Escaped = nil // the follow-up repetition is not part of this scenario
		}
	case n <= 3:
		splits = allSplits(n - 1)
	default:
		splits = []chainSplit{randSplit(chainRng, n-1), randSplit(chainRng, n-1)}
	}
	if len(s.Samples) < 2 {
		s.sample(map[string]any{"chain": c.Chain, "expected_log": c.Log, "splits": len(splits)})
	}
	for _, sp := range splits {
		outerPrefix := "/g"
		if (sp.gBefore+sp.later)%3 == 2 { // sometimes the outer group has the root prefix: it is a group all the same
			outerPrefix = "/"
		}
		if (sp.outer+sp.inUse)%3 == 1 && chainRunHook == nil { // or a prefix that IS a path variable: the route has no static first segment
			outerPrefix = "/{lang}"
		}
		chainRunOnce(s, &c, sp, outerPrefix, false)
		if c.Kind == "route" && (n <= 3 || (sp.inner+sp.variadic)%2 == 1) {
			// the same chain on a DYNAMIC route of a caching router, observed on the cache hit (second request)
			chainRunOnce(s, &c, sp, outerPrefix, true)
		}
		if c.Kind == "route" && sp.outUse > 0 && chainRunHook == nil {
			// Use() directly inside a TOP-LEVEL group whose prefix is the root: still the group's middleware, not global
			for _, op := range []string{"/g", "/", ""} {
				if op != outerPrefix {
					chainRunOnce(s, &c, sp, op, false)
				}
			}
		}
	}
}

func chainRunOnce(s *Summary, c *chainCase, sp chainSplit, outerPrefix string, cachedDyn bool) {
	n := len(c.Chain)
	var cur *chainRun
	hs := make([]rux.HandlerFunc, n)
	for i := range c.Chain {
		hs[i] = mkHandler(&cur, i+1, c.Chain[i])
	}
	desc := func(aspect, what string) map[string]any {
		return map[string]any{"kind": "chain", "aspect": aspect, "chain_len": n, "chain_kind": c.Kind,
			"split": fmt.Sprintf("%+v outer group prefix %q cached-dynamic-route=%v", sp, outerPrefix, cachedDyn), "what": what}
	}
	var r *rux.Router
	decoyMw := func(cx *rux.Context) { cur.log = append(cur.log, []any{"in", -1, cx.IsAborted()}) } // must never run for /x
	polluted := c.Kind == "route" && n%2 == 0 && chainRunHook == nil
	// (the extra middleware takes one slot of the handler limit: only for chains well below it)
	subReq := c.Kind == "route" && c.Escaped != nil && c.Hook != nil && n < 50 && chainRunHook == nil
	// fallback chains: a nested request that ends in the OTHER fallback (404 inside a 405 request and the reverse) is served
	// while the measured request is in flight
	fbSub := (c.Kind == "notfound" || c.Kind == "notallowed") && n < 50 && chainRunHook == nil
	method, path := "GET", "/g/h/x"
	regPanic := any(nil)
	func() {
		defer func() { regPanic = recover() }()
		opts := []func(*rux.Router){}
		if c.Kind == "notallowed" || c.Kind == "na-default" || c.Kind == "na-builtin" || c.Kind == "default" || fbSub {
			opts = append(opts, rux.HandleMethodNotAllowed)
		}
		if cachedDyn {
			opts = append(opts, cachingOpts(2)...)
		}
		r = newRouter(opts...)
		if subReq {
			// first global middleware (it logs nothing and returns, the chain goes on): when asked to by a header it serves a
			// nested request on the same goroutine before the outer request continues - two requests in flight, deterministically
			r.Use(func(cx *rux.Context) {
				if cx.Req.Header.Get("X-Subrequest") != "" {
					saved := cur
					cur = &chainRun{rw: &recWriter{hdr: http.Header{}}}
					r.ServeHTTP(httptest.NewRecorder(), &http.Request{Method: "GET", URL: &url.URL{Path: "/top"}, Header: http.Header{}, Proto: "HTTP/1.1"})
					cur = saved
				}
			})
		}
		use := func(hs ...rux.HandlerFunc) { r.Use(hs...) }
		if fbSub {
			r.Use(func(cx *rux.Context) {
				if cx.Req.Header.Get("X-Subrequest") != "" {
					saved := cur
					cur = &chainRun{rw: &recWriter{hdr: http.Header{}}}
					nm, np := "POST", "/other" // a GET-only route: 405
					if c.Kind == "notallowed" {
						nm, np = "GET", "/missing"
					}
					func() {
						// (the global middleware runs for the nested request too; what it does there - a panic included - stays there)
						defer func() { _ = recover(); cur = saved }()
						r.ServeHTTP(httptest.NewRecorder(), &http.Request{Method: nm, URL: &url.URL{Path: np}, Header: http.Header{}, Proto: "HTTP/1.1"})
					}()
				}
			})
			if n%3 != 0 { // one Use call per handler: the shared slice of global middleware gets spare capacity
				use = func(hs ...rux.HandlerFunc) {
					for _, h := range hs {
						r.Use(h)
					}
				}
			}
		}
		switch c.Kind {
		case "route":
			mw := hs[:n-1]
			// every level gets its own slice with cap == len, like literal variadic arguments
			take := func(k int) []rux.HandlerFunc {
				x := append([]rux.HandlerFunc{}, mw[:k]...)
				mw = mw[k:]
				return x[:k:k]
			}
			gB, gA := take(sp.gBefore), take(sp.gAfter)
			outer, outUse, inner, inUse := take(sp.outer), take(sp.outUse), take(sp.inner), take(sp.inUse)
			variadic, later := take(sp.variadic), take(sp.later)
			for _, h := range gB { // one Use call per handler: the shared slice gets spare capacity
				r.Use(h)
			}
			var rt *rux.Route
			if outerPrefix != "/g" {
				path = "/h/x"
			}
			if outerPrefix == "/{lang}" {
				path = "/en/h/x"
			}
			r.Group(outerPrefix, func() {
				for _, h := range outUse {
					r.Use(h)
				}
				r.Group("/h", func() {
					for _, h := range inUse { // one Use call per handler: the group chain gets spare capacity
						r.Use(h)
					}
					rpath := "/x"
					if cachedDyn {
						rpath = "/x/{id}"
					}
					// the registration entry points: a route object may carry its middleware BEFORE it is registered in the group
					switch (sp.variadic + sp.inner + sp.gBefore) % 3 {
					case 1:
						rt = rux.NewRoute(rpath, hs[n-1], "GET").Use(variadic...)
						rt.AttachTo(r)
					case 2:
						rt = r.AddRoute(rux.NewNamedRoute("x", rpath, hs[n-1], "GET").Use(variadic...))
					default:
						rt = r.GET(rpath, hs[n-1], variadic...)
					}
					// registered AFTER the route, in the same group: must not leak into the chain of /x
					r.GET("/decoy", nopHandler, decoyMw)
					r.Use(decoyMw)
					r.Group("/sub", func() { r.GET("/decoy2", nopHandler) }, decoyMw)
				}, inner...)
				// Use() in the outer group AFTER the nested group has returned: still the outer group's (for what follows in it)
				r.Use(func(cx *rux.Context) { cur.log = append(cur.log, []any{"in", -5, cx.IsAborted()}) })
				// registered after the inner group has returned: only the outer group's middleware applies
				r.GET("/sib", func(cx *rux.Context) { cur.log = append(cur.log, []any{"in", -3, cx.IsAborted()}) })
			}, outer...)
			// registered after the outer group has returned: only the global middleware applies
			r.GET("/top", func(cx *rux.Context) { cur.log = append(cur.log, []any{"in", -4, cx.IsAborted()}) })
			if cachedDyn {
				path += "/7"
			}
			if len(later) > 0 {
				rt.Use(later...)
			}
			if len(gA) > 0 {
				r.Use(gA...)
			}
		case "notfound": // global middleware registered before AND after the fallback handlers
			k := (n - 1) / 2
			if sp.fbTail > 0 {
				k = n - sp.fbTail
			}
			use(hs[:k/2]...)
			if n%2 == 0 {
				r.NotFound(decoyMw, decoyMw) // installed first and then REPLACED: must never run
			}
			r.NotFound(hs[k:]...)
			use(hs[k/2 : k]...)
			r.GET("/other", nopHandler)
			path = "/missing"
		case "redispatch":
			// outer route /g/h/x/{id} (dynamic, no middleware of its own): G ++ redispatcher; it re-dispatches to the static
			// route /t whose chain is G ++ inner. The handlers at the positions b+1..b+g of the model chain ARE the global
			// middleware again (same handler values).
			g, b := c.G, c.B
			r.Use(hs[:g]...)
			if c.Tail == 1 {
				r.GET("/g/h/x/{id}", hs[b-1], hs[b-2]) // main handler hs[b-1] is never started, hs[b-2] re-dispatches
			} else {
				r.GET("/g/h/x/{id}", hs[b-1])
			}
			inner := hs[b+g:]
			tr := r // the router that owns the target route /t
			chainOther = nil
			if c.Other {
				tr = rux.New()
				tr.Use(hs[:g]...)
				chainOther = tr
			}
			tr.GET("/t", func(cx *rux.Context) {
				if len(cx.Params) != 0 { // a static route exposes no parameters (C02), also after a re-dispatch
					cur.log = append(cur.log, []any{"static-route-with-params", len(cx.Params), false})
				}
				inner[len(inner)-1](cx)
			}, inner[:len(inner)-1]...)
			path = "/g/h/x/7"
		case "subrouter": // G ++ mount: the main handler of /g/h/x hands the request to another router
			r.Use(hs[:n-1]...)
			r.GET("/g/h/x", hs[n-1])
		case "default":
			// a router WITHOUT any middleware or custom fallback handler: the chain is the built-in handler alone (the script
			// says which one); nothing is instrumented, only the calls that reach the underlying writer are observed
			r.POST("/g/h/x", nopHandler)
			switch c.Chain[0][0][1] {
			case float64(404):
				path = "/missing"
			case float64(405):
			default:
				method = "OPTIONS"
			}
		case "na-builtin", "nf-builtin":
			// the LAST handler of the model chain is the router's built-in 405 / 404 handler (not instrumented), all others are
			// global middleware: the built-in handler is the last handler of the chain like any other (it starts iff they let it)
			r.Use(hs[:n-1]...)
			r.POST("/g/h/x", nopHandler)
			if c.Kind == "nf-builtin" {
				path = "/missing"
			}
		case "na-default": // all handlers are global middleware around the DEFAULT 405 handler; a custom NotFound is installed too
			r.Use(hs...)
			r.NotFound(func(cx *rux.Context) { cur.log = append(cur.log, []any{"in", -2, false}) })
			r.POST("/g/h/x", nopHandler)
		case "notallowed":
			k := (n - 1) / 2
			if sp.fbTail > 0 {
				k = n - sp.fbTail
			}
			use(hs[:k/2]...)
			if n%2 == 1 {
				r.NotAllowed(decoyMw) // installed first and then REPLACED: must never run
			}
			r.NotAllowed(hs[k:]...)
			r.NotFound(func(cx *rux.Context) { cur.log = append(cur.log, []any{"in", -2, false}) }) // must not answer a 405
			use(hs[k/2 : k]...)
			r.POST("/g/h/x", nopHandler)
		}
		if polluted {
			r.GET("/pollute", func(cx *rux.Context) {
				cx.Resp = &swallowWriter{hdr: http.Header{}} // a wrapper installed by a handler and never taken out again
				cx.Set("polluted", 1)
				cx.AddError(errors.New("polluter"))
				cx.Params = rux.Params{"polluted": "1"}
				cx.Abort()
			})
		}
		if c.OnError != nil {
			r.OnError = mkHandler(&cur, 0, c.OnError)
		}
		if c.Hook != nil {
			inner := mkHandler(&cur, 0, c.Hook)
			hooked := r
			if c.Kind == "redispatch" && c.Other && chainOther != nil {
				// the hook belongs to the router that dispatches the nested chain; the outer router's own hook must stay out of it
				hooked = chainOther
				r.OnPanic = func(cx *rux.Context) { cur.log = append(cur.log, []any{"hook-of-the-wrong-router", 0, false}) }
			}
			hooked.OnPanic = func(cx *rux.Context) {
				// the recovered value must be available under the documented key
				v, ok := cx.Get(rux.CTXRecoverResult)
				if _, isTok := v.(*panicToken); !ok || !(isTok || v == any(http.ErrAbortHandler)) {
					cur.log = append(cur.log, []any{"hook-without-recover-value", 0, false})
				}
				inner(cx)
			}
		}
	}()
	if regPanic != nil {
		s.mismatch(desc("registration-panic", fmt.Sprintf("registration panicked: %v", regPanic)), c)
		return
	}
	withSub, plainW := false, false
	usesFlush := false
	for _, sc := range c.Chain {
		for _, op := range sc {
			usesFlush = usesFlush || opName(op) == "flush"
		}
	}
	serve := func() *chainRun {
		run := &chainRun{rw: &recWriter{hdr: http.Header{}}}
		cur = run
		req := &http.Request{Method: method, URL: &url.URL{Path: path}, Header: http.Header{}, Proto: "HTTP/1.1"}
		if withSub {
			req.Header.Set("X-Subrequest", "1")
		}
		func() {
			defer func() { run.panicV = recover() }()
			if plainW {
				r.ServeHTTP(&plainWriter{run.rw}, req) // a ResponseWriter that is nothing but a ResponseWriter (no Flusher)
				return
			}
			r.ServeHTTP(run.rw, req)
		}()
		return run
	}
	if cachedDyn {
		serve() // the miss fills the cache; what is observed below is the cache hit
	}
	if polluted {
		// an earlier request whose handler leaves its context in the worst possible state: the request observed below
		// (most likely on the same pooled context) must not notice
		savedPath, savedMethod := path, method
		path, method = "/pollute", "GET"
		serve()
		path, method = savedPath, savedMethod
	}
	run := serve()
	s.Compared++
	if chainRunHook != nil { // recorder mode: hand the observation over, compare nothing
		chainRunHook(run)
		return
	}
	if c.Kind == "route" {
		// no residue (C12/C04): routes registered after a group has returned must not run the group's middleware
		mainPath, mainMethod := path, method
		sibPrefix := outerPrefix
		if sibPrefix == "/" {
			sibPrefix = ""
		}
		if sibPrefix == "/{lang}" {
			sibPrefix = "/en"
		}
		for _, pr := range []struct {
			path    string
			allowed int
			tag     int
		}{{sibPrefix + "/sib", sp.gBefore + sp.gAfter + sp.outer + sp.outUse, -3}, {"/top", sp.gBefore + sp.gAfter, -4}} {
			path, method = pr.path, "GET"
			probe := serve()
			late := 0
			for _, e := range probe.log {
				if h, ok := e[1].(int); ok && h == -5 {
					late++
				}
			}
			if late > 1 || (pr.tag != -3 && late != 0) { // (an earlier handler of /sib may stop the chain before it)
				s.mismatch(desc("enter", fmt.Sprintf("route %s: the middleware added with Use() in the outer group after its nested group returned ran %d time(s) (it belongs to the routes that follow it in the outer group, here /sib only): %v",
					pr.path, late, probe.log)), c)
				return
			}
			for _, e := range probe.log {
				if h, ok := e[1].(int); ok && e[0] == "in" && h > pr.allowed {
					s.mismatch(desc("enter", fmt.Sprintf("route %s, registered after a group returned, runs handler #%d of the chain of /x (only the first %d belong to its scope): %v",
						pr.path, h, pr.allowed, probe.log)), c)
					return
				}
			}
		}
		path, method = mainPath, mainMethod
	}
	want := normLog(c.Log)
	if c.Kind == "redispatch" {
		for _, e := range want { // positions b+1..b+g of the model chain are the global middleware 1..g again
			if p, ok := e[1].(int); ok && p > c.B && p <= c.B+c.G {
				e[1] = p - c.B
			}
		}
	}
	got := run.log
	if tok, ok := run.panicV.(*panicToken); run.panicV != nil && !ok && run.panicV != any(http.ErrAbortHandler) {
		_ = tok
		s.mismatch(desc("crash", fmt.Sprintf("chain of %d handlers: ServeHTTP panicked inside rux: %v (after %d log events)", n, run.panicV, len(got))), c)
		return
	}
	if os.Getenv("VERIF_CHAIN_ORDER_ONLY") == "1" {
		// only which handlers run, in which order (C04 beyond the sentinel: what IsAborted() reports there is finding F20 of C05)
		strip := func(l [][]any) [][]any {
			out := make([][]any, len(l))
			for i, e := range l {
				out[i] = []any{e[0], e[1], false}
			}
			return out
		}
		got, want = strip(got), strip(want)
	}
	if !(len(got) == 0 && len(want) == 0) && !reflect.DeepEqual(got, want) {
		aspect := "log"
		at := 0
		// classify the first difference
		for i := 0; i < len(got) || i < len(want); i++ {
			if i < len(want) && i < len(got) && reflect.DeepEqual(got[i], want[i]) {
				continue
			}
			at = i
			if i < len(got) && i < len(want) && got[i][0] == want[i][0] && got[i][1] == want[i][1] {
				aspect = "probe" // same event, IsAborted() differs
			} else if i < len(got) && got[i][0] == "in" {
				aspect = "enter" // a handler started that the ideal machine does not start here
			}
			break
		}
		ev := func(l [][]any, i int) any {
			if i < len(l) {
				return l[i]
			}
			return "<end of log>"
		}
		d := desc(aspect, fmt.Sprintf("chain of %d handlers: event #%d is %v, ideal machine: %v (events are [in|out, handler, IsAborted()])", n, at+1, ev(got, at), ev(want, at)))
		d["at"] = at + 1
		// beyond the sentinel the code is known to leave the ideal (finding F20); it is that finding only if the code behaves
		// EXACTLY as the cursor machine - the model of Context.Next as written - says
		d["as_cursor_machine"] = c.CLog != nil && reflect.DeepEqual(got, normLog(c.CLog))
		s.mismatch(d, c)
		return
	}
	if c.Escaped != nil {
		if esc := run.panicV != nil; esc != *c.Escaped {
			s.mismatch(desc("panic-escape", fmt.Sprintf("panic escaped ServeHTTP = %v, spec %v", esc, *c.Escaped)), c)
			return
		}
	}
	if c.CheckW && c.Length != nil && *c.Length > 0 && run.outLen != *c.Length {
		// Length() equals the number of bytes accepted (all writer ops precede the out of handler 1 in these cases)
		s.mismatch(desc("writer", fmt.Sprintf("Context.Length() = %d after the writes %v, the underlying writer accepted %d bytes", run.outLen, run.rw.calls, *c.Length)), c)
		return
	}
	if c.Kind == "default" {
		// the body text of the built-in handlers is not constrained; the status is: committed exactly once, first
		wh := 0
		for _, call := range run.rw.calls {
			if call[0] == "WH" {
				wh++
			}
		}
		want := normLog(c.Under)
		if wh != 1 || len(run.rw.calls) == 0 || !reflect.DeepEqual(run.rw.calls[0], want[0]) {
			s.mismatch(desc("writer", fmt.Sprintf("built-in fallback handler on a router without middleware (%s %s): underlying writer received %v, expected one WriteHeader, first: %v", method, path, run.rw.calls, want[0])), c)
		}
		return
	}
	if c.CheckW && c.Kind != "na-default" {
		wantU := normLog(c.Under)
		gotU := run.rw.calls
		if c.Kind == "na-builtin" || c.Kind == "nf-builtin" {
			// (the text of the built-in answer is not constrained: compare the calls and the statuses, not the sizes)
			strip := func(l [][]any) [][]any {
				out := [][]any{}
				for _, e := range l {
					if e[0] == "W" {
						out = append(out, []any{"W"})
					} else {
						out = append(out, e)
					}
				}
				return out
			}
			wantU, gotU = strip(wantU), strip(gotU)
		}
		if !(len(gotU) == 0 && len(wantU) == 0) && !reflect.DeepEqual(gotU, wantU) {
			s.mismatch(desc("writer", fmt.Sprintf("underlying writer received %v, spec %v", gotU, wantU)), c)
			return
		}
	}
	if fbSub {
		withSub = true
		third := serve()
		withSub = false
		if !reflect.DeepEqual(third.log, run.log) || (third.panicV != nil) != (run.panicV != nil) || (c.CheckW && !reflect.DeepEqual(third.rw.calls, run.rw.calls)) {
			s.mismatch(desc("enter", fmt.Sprintf("the same request with a nested request that ends in the other fallback chain served while it is in flight: log %v writer %v, alone %v %v",
				third.log, third.rw.calls, run.log, run.rw.calls)), c)
			return
		}
	}
	// the router stays usable: follow-up requests behave as on a fresh run
	if c.Escaped != nil {
		plainW = !usesFlush && c.Hook != nil
		again := serve()
		plainW = false
		if !reflect.DeepEqual(again.log, run.log) || (again.panicV != nil) != (run.panicV != nil) || (c.CheckW && !reflect.DeepEqual(again.rw.calls, run.rw.calls)) {
			s.mismatch(desc("unhealthy", fmt.Sprintf("the same request repeated after the panic: log %v writer %v, first time %v %v", again.log, again.rw.calls, run.log, run.rw.calls)), c)
			return
		}
		if subReq {
			// ... and once more with another request served while this one is in flight (a context must not be in the pool twice)
			withSub = true
			third := serve()
			withSub = false
			if !reflect.DeepEqual(third.log, run.log) || (third.panicV != nil) != (run.panicV != nil) || (c.CheckW && !reflect.DeepEqual(third.rw.calls, run.rw.calls)) {
				s.mismatch(desc("unhealthy", fmt.Sprintf("the same request after the panic, with a nested request served while it is in flight: log %v writer %v, first time %v %v",
					third.log, third.rw.calls, run.log, run.rw.calls)), c)
			}
		}
	}
}

// ---- family "chainrec": random chains with arbitrary scripts, recorded for spec/trace/TraceChain.tla --------------

func init() {
	families["chainrec"] = &family{record: chainRecord}
}

func randScript(rng *rand.Rand, allowPanic bool) [][]any {
	ops := [][]any{{"in"}}
	n := rng.Intn(5)
	for i := 0; i < n; i++ {
		switch x := rng.Intn(20); {
		case x < 7:
			ops = append(ops, []any{"next"})
		case x < 9:
			ops = append(ops, []any{"abort"})
		case x < 10:
			ops = append(ops, []any{"abortStatus", []int{401, 403, 500}[rng.Intn(3)]})
		case x < 12:
			ops = append(ops, []any{"status", []int{0, -1, 201, 404, 500}[rng.Intn(5)]})
		case x < 15:
			ops = append(ops, []any{"write", rng.Intn(4), []string{"full", "full", "short", "err"}[rng.Intn(4)]})
		case x < 16:
			ops = append(ops, []any{"flush"})
		case x < 17:
			ops = append(ops, []any{"err"})
		case x < 18:
			ops = append(ops, []any{"httpError", 400 + rng.Intn(5), 2 + rng.Intn(4)})
		case x < 19 && allowPanic:
			ops = append(ops, []any{"panic"})
		case x == 19 && rng.Intn(2) == 0:
			ops = append(ops, []any{"lib", []string{"favicon-hit", "favicon-miss", "basicauth-none", "basicauth-bad", "basicauth-ok",
				"timeout-fired", "timeout-idle"}[rng.Intn(7)]})
		default:
			ops = append(ops, []any{"in"})
		}
	}
	return append(ops, []any{"out"})
}

func chainRecord(s *Summary, rng *rand.Rand, n int, out *traceWriter) {
	for t := 0; t < n; t++ {
		ln := 1 + rng.Intn(8)
		if rng.Intn(4) == 0 {
			ln = 1 + rng.Intn(63)
		}
		c := chainCase{Kind: []string{"route", "route", "notfound", "notallowed"}[rng.Intn(4)]}
		panics := rng.Intn(3) == 0
		for i := 0; i < ln; i++ {
			sc := randScript(rng, panics)
			if ln > 20 && rng.Intn(3) > 0 {
				sc = [][]any{{"in"}, {"next"}, {"out"}}
			}
			c.Chain = append(c.Chain, sc)
		}
		if rng.Intn(2) == 0 {
			c.OnError = [][]any{{"in"}, {"status", 500}, {"out"}}
		}
		if panics && rng.Intn(3) > 0 {
			c.Hook = [][][]any{{{"in"}}, {{"in"}, {"status", 500}}, {{"in"}, {"status", 503}, {"write", 4, "full"}, {"out"}}}[rng.Intn(3)]
		}
		run := chainExecute(&c, randSplit(rng, ln-1))
		if run == nil {
			continue
		}
		opt := func(x [][]any) any {
			if x == nil {
				return [][]any{{"none"}}
			}
			return x
		}
		under := run.rw.calls
		if under == nil {
			under = [][]any{}
		}
		lg := run.log
		if lg == nil {
			lg = [][]any{}
		}
		out.emit(map[string]any{"chain": c.Chain, "onerror": opt(c.OnError), "hook": opt(c.Hook), "kind": c.Kind, "n": ln,
			"log": lg, "under": under, "escaped": run.panicV != nil})
		s.Cases++
	}
}

// chainExecute registers the chain and serves one request (shared with the replay); nil if registration panicked
func chainExecute(c *chainCase, sp chainSplit) *chainRun {
	tmp := &Summary{Mismatches: []Mismatch{}}
	var got *chainRun
	chainRunHook = func(r *chainRun) { got = r }
	defer func() { chainRunHook = nil }()
	cc := *c
	cc.Log, cc.Under, cc.Escaped, cc.CheckW = nil, nil, nil, false
	chainRunOnce(tmp, &cc, sp, []string{"/g", "/", ""}[(sp.outUse+sp.inner)%3], (sp.gBefore+sp.variadic)%3 == 1)
	return got
}

var chainRunHook func(*chainRun)
