package main

import (
	"encoding/json"
	"fmt"
	"math/rand"
	"net/http"
	"net/http/httptest"
	"net/url"
	"reflect"
	"sort"
	"strings"
	"sync"
	"sync/atomic"

	"github.com/gookit/rux"
)

// family "rcache": binds RuxRouterCache (spec/RuxRouterCache.tla) to a caching router and its cache-less twin.
// Every exported line is a request history (a path of the complete state graph + one more step); after every step the
// twin responses are compared with each other and with the model, and the cache content (keys in recency order) and the
// cache operations observed by the hook are compared with the model.

type rcacheStep struct {
	M    string   `json:"m"`
	Path []string `json:"path"`
	Code int      `json:"code"`
	Hit  bool     `json:"hit"`
	Keys [][2]any `json:"keys"`
}

type rcacheCase struct {
	Table string       `json:"table"`
	Hmna  bool         `json:"hmna"`
	Hfb   bool         `json:"hfb"`
	Cap   int          `json:"cap"`
	H     []rcacheStep `json:"h"`
	// number of global middleware, each added with a Use call of its own (3 and 5 leave spare capacity in the shared
	// slice); chosen by the harness per case, the same for both twins
	nmw int
}

var rcacheCaseNo int64

var rcacheTables map[string][][2]any
var rcacheMu sync.Mutex

// the request alphabet of the model: after every replayed history each of these is sent once more (to a fresh pair of
// routers that went through the same history) and compared with the cache-less twin.  The exported histories are one per
// MODEL state; an implementation whose cache state differs from the model's after a history (an entry the model does not
// have) shows the difference only in the NEXT request, which the model's graph reaches through another history.
var rcacheAlphabet [][2]string

func init() {
	families["rcache"] = &family{replay: rcacheReplay}
}

type rcTwin struct {
	r      *rux.Router
	routes []*rux.Route
	// sib: a second router configured with the SAME option values and the same table (handlers tagged differently); it
	// serves every request just before r does. Routers are independent of each other, whatever they were built from.
	sib    *rux.Router
	strict bool
}

func rcBuild(c rcacheCase, cached bool) *rcTwin {
	opts := []func(*rux.Router){}
	if c.Hmna {
		opts = append(opts, rux.HandleMethodNotAllowed)
	}
	if c.Hfb {
		opts = append(opts, rux.HandleFallbackRoute)
	}
	if cached {
		opts = append(opts, cachingOpts(c.Cap)...)
	}
	if strings.HasPrefix(c.Table, "encoded") {
		opts = append(opts, rux.UseEncodedPath)
	}
	// the model takes request paths literally, which is what a StrictLastSlash router does; without trailing slashes in
	// the table and the history both modes agree, so they alternate
	strict := strings.HasPrefix(c.Table, "strict")
	for _, st := range c.H {
		strict = strict || (len(st.Path) > 1 && st.Path[len(st.Path)-1] == "/")
	}
	if strict || (len(c.H)+c.Cap)%2 == 1 {
		opts = append(opts, rux.StrictLastSlash)
	}
	t := &rcTwin{r: newRouter(opts...), strict: strict || (len(c.H)+c.Cap)%2 == 1}
	if cached {
		t.sib = rux.New(opts...)
	}
	for i := 0; i < c.nmw; i++ {
		mark := fmt.Sprint(i + 1)
		mw := func(cx *rux.Context) {
			seen, _ := cx.SafeGet("mw").(string)
			cx.Set("mw", seen+mark)
		}
		t.r.Use(mw)
		if t.sib != nil {
			t.sib.Use(mw)
		}
	}
	for i, row := range rcacheTables[c.Table] {
		tag := fmt.Sprintf("r%d", i+1)
		ms := []string{}
		for _, m := range row[1].([]any) {
			ms = append(ms, m.(string))
		}
		t.routes = append(t.routes, t.r.AddNamed(tag, row[0].(string), func(cx *rux.Context) {
			// (what the router tells the handler about the selected route is part of what the request observes)
			cx.Text(200, fmt.Sprintf("%s|%s|%v@%v|mw=%v", tag, paramsTag(cx.Params), cx.SafeGet(rux.CTXCurrentRouteName), cx.SafeGet(rux.CTXCurrentRoutePath), cx.SafeGet("mw")))
		}, ms...))
		if t.sib != nil {
			t.sib.AddNamed(tag, row[0].(string), func(cx *rux.Context) { cx.Text(200, "SIBLING-"+tag) }, ms...)
		}
	}
	return t
}

// rcEncoded: the routers of the current case use UseEncodedPath (the model's path is the ESCAPED path of the URL)
var rcEncoded bool

func rcServe(r *rux.Router, m, path string) (code int, body, allow string, pan any) {
	u := &url.URL{Path: path}
	if dec, err := url.PathUnescape(path); rcEncoded && err == nil && dec != path {
		u = &url.URL{Path: dec, RawPath: path} // what a client that sent the escaped spelling produces (EscapedPath() == path)
	}
	req := &http.Request{Method: m, URL: u, Header: http.Header{}, Proto: "HTTP/1.1"}
	w := httptest.NewRecorder()
	func() {
		defer func() { pan = recover() }()
		r.ServeHTTP(w, req)
	}()
	return w.Code, strings.TrimSpace(w.Body.String()), w.Header().Get("Allow"), pan
}

func rcacheReplay(s *Summary, raw json.RawMessage) {
	if strings.HasPrefix(string(raw), `{"hdr"`) {
		var h struct {
			Tables   map[string][][2]any `json:"tables"`
			Alphabet [][2]string         `json:"alphabet"`
		}
		if err := json.Unmarshal(raw, &h); err != nil {
			fatal("bad rcache hdr: %v", err)
		}
		rcacheTables = h.Tables
		rcacheAlphabet = h.Alphabet
		s.Cases--
		return
	}
	var c rcacheCase
	if err := json.Unmarshal(raw, &c); err != nil {
		fatal("bad rcache case: %v", err)
	}
	s.sample(c)
	rcEncoded = strings.HasPrefix(c.Table, "encoded")
	c.nmw = []int{3, 0, 5, 1}[atomic.AddInt64(&rcacheCaseNo, 1)%4]
	cached, plain := rcBuild(c, true), rcBuild(c, false)
	cache := cached.r.VerifCache()
	var evs []rux.VerifCacheEvent
	rux.VerifSetCacheTracer(func(cc any, ev rux.VerifCacheEvent) {
		if cc == any(cache) {
			evs = append(evs, ev)
		}
	})
	defer rux.VerifSetCacheTracer(nil)
	contentReported := false
	for i, st := range c.H {
		path := tokStr(st.Path)
		where := fmt.Sprintf("table %s hmna=%v hfb=%v cap=%d, step %d/%d: %s %s", c.Table, c.Hmna, c.Hfb, c.Cap, i+1, len(c.H), st.M, path)
		bad := func(aspect, what string) {
			s.mismatch(map[string]any{"kind": "rcache", "aspect": aspect, "table": c.Table, "cap": c.Cap, "step": i + 1,
				"method": st.M, "path": path, "what": where + ": " + what}, c)
		}
		if cached.sib != nil {
			rcServe(cached.sib, st.M, path)
		}
		evs = evs[:0]
		// on a router that is not strict the request may be spelled with a trailing or a doubled leading slash: it is the same
		// request (same resolution, same cache entry)
		sent := path
		if !cached.strict && !plain.strict && path != "/" {
			switch i % 3 {
			case 1:
				sent = path + "/"
			case 2:
				sent = "/" + path
			}
		}
		c1, b1, a1, p1 := rcServe(cached.r, st.M, sent)
		c2, b2, a2, p2 := rcServe(plain.r, st.M, sent)
		s.Compared++
		if p1 != nil || p2 != nil {
			bad("panic", fmt.Sprintf("ServeHTTP panicked: cached=%v plain=%v", p1, p2))
			return
		}
		if c1 != c2 || b1 != b2 || a1 != a2 {
			bad("transparency", fmt.Sprintf("caching router answered %d %q Allow=%q, cache-less twin %d %q Allow=%q", c1, b1, a1, c2, b2, a2))
			return
		}
		// against the model
		switch {
		case st.Code >= 1000:
			want := strings.Join(maskMethods(st.Code-1000), ", ")
			ws := 405
			if st.M == "OPTIONS" {
				ws = 200
			}
			if c1 != ws || a1 != want {
				bad("transparency", fmt.Sprintf("answered %d Allow=%q, model %d Allow=%q", c1, a1, ws, want))
				return
			}
		case st.Code > 0:
			if c1 != 200 || !strings.HasPrefix(b1, fmt.Sprintf("r%d|", st.Code%100)) {
				bad("transparency", fmt.Sprintf("answered %d %q, model: route #%d", c1, b1, st.Code%100))
				return
			}
		default:
			if c1 != 404 {
				bad("transparency", fmt.Sprintf("answered %d %q, model 404", c1, b1))
				return
			}
		}
		// cache content in recency order
		want := []string{}
		for _, k := range st.Keys {
			want = append(want, k[0].(string)+tokStr(anyToks(k[1])))
		}
		got := []string{}
		if cache != nil {
			got = cache.VerifKeys()
		}
		if !(len(got) == 0 && len(want) == 0) && !reflect.DeepEqual(got, want) && !contentReported {
			// reported once per history; the history goes on, because what the requests observe (C07) is judged separately
			bad("cache-content", fmt.Sprintf("cache keys %v, model %v", got, want))
			contentReported = true
		}
		// repeats are served from the cache: a predicted hit must not store anything; a dynamic direct miss must store m+path
		sets := []string{}
		for _, e := range evs {
			if e.Op == "set" {
				sets = append(sets, e.Key)
			}
		}
		sort.Strings(sets)
		if st.Hit && len(sets) > 0 && st.Code < 1000 && !contentReported {
			bad("cache-fill", fmt.Sprintf("model: answered from the cache, but the router stored %v", sets))
			contentReported = true
		}
	}
	rux.VerifSetCacheTracer(nil)
	for _, rq := range rcacheAlphabet {
		ca, pl := rcBuild(c, true), rcBuild(c, false)
		for _, st := range c.H {
			rcServe(ca.r, st.M, tokStr(st.Path))
			rcServe(pl.r, st.M, tokStr(st.Path))
		}
		c1, b1, a1, p1 := rcServe(ca.r, rq[0], rq[1])
		c2, b2, a2, p2 := rcServe(pl.r, rq[0], rq[1])
		s.Compared++
		if c1 != c2 || b1 != b2 || a1 != a2 || (p1 == nil) != (p2 == nil) {
			s.mismatch(map[string]any{"kind": "rcache", "aspect": "transparency", "table": c.Table, "cap": c.Cap, "step": len(c.H) + 1,
				"method": rq[0], "path": rq[1], "what": fmt.Sprintf(
					"table %s hmna=%v hfb=%v cap=%d, after the history of %d requests, one more request %s %s: caching router answered %d %q Allow=%q (panic %v), cache-less twin %d %q Allow=%q (panic %v)",
					c.Table, c.Hmna, c.Hfb, c.Cap, len(c.H), rq[0], rq[1], c1, b1, a1, p1, c2, b2, a2, p2)}, c)
			return
		}
	}
}

// ---- family "rcacherec": recorder for spec/trace/TraceRouterCache.tla --------------------------------------------

func init() {
	families["rcacherec"] = &family{record: rcacheRecord}
}

func rcacheRecord(s *Summary, rng *rand.Rand, n int, out *traceWriter) {
	type entry struct {
		pat pattern
		ms  []string
		idx int
	}
	type scen struct {
		routes []entry
		reqs   [][2]string
	}
	pool := []string{}
	paths := map[string]bool{}
	scens := make([]scen, n)
	for i := range scens {
		nr := 3 + rng.Intn(6)
		static := map[string]bool{}
		for len(scens[i].routes) < nr {
			p := genPattern(rng)
			ms := randMethods(rng)
			if p.isStatic() {
				clash := false
				for _, m := range ms {
					clash = clash || static[m+p.render(true)]
				}
				if clash {
					continue
				}
				for _, m := range ms {
					static[m+p.render(true)] = true
				}
			}
			pool = append(pool, p.render(false))
			scens[i].routes = append(scens[i].routes, entry{p, ms, len(pool)})
		}
		// a small request alphabet, so that requests repeat
		for len(scens[i].reqs) < 8+rng.Intn(7) {
			e := scens[i].routes[rng.Intn(nr)]
			path := e.pat.instantiate(rng)
			if rng.Intn(4) == 0 {
				path = mutatePath(rng, path)
			}
			path = normalPath(path)
			if len(path) > 14 {
				path = normalPath(path[:14])
			}
			m := e.ms[rng.Intn(len(e.ms))]
			switch rng.Intn(6) {
			case 0:
				m = "HEAD"
			case 1:
				m = nineMethods[rng.Intn(9)]
			}
			scens[i].reqs = append(scens[i].reqs, [2]string{m, path})
			paths[path] = true
		}
	}
	plist := [][]string{}
	for p := range paths {
		plist = append(plist, chars(p))
	}
	out.emit(map[string]any{"op": "hdr", "pool": pool, "paths": plist})
	for _, sc := range scens {
		hmna, hfb, capN := rng.Intn(2) == 0, rng.Intn(2) == 0, rng.Intn(6)
		out.emit(map[string]any{"op": "reset", "hmna": hmna, "hfb": hfb, "cap": capN})
		build := func(cached bool) (*rux.Router, []*rux.Route) {
			opts := []func(*rux.Router){}
			if hmna {
				opts = append(opts, rux.HandleMethodNotAllowed)
			}
			if hfb {
				opts = append(opts, rux.HandleFallbackRoute)
			}
			if cached {
				opts = append(opts, cachingOpts(capN)...)
			}
			r := newRouter(opts...)
			rts := []*rux.Route{}
			for i, e := range sc.routes {
				tag := fmt.Sprintf("r%d", i+1)
				rts = append(rts, r.AddNamed(tag, e.pat.render(true), func(cx *rux.Context) { cx.Text(200, tag+"|"+paramsTag(cx.Params)) }, e.ms...))
			}
			return r, rts
		}
		cachedR, _ := build(true)
		plainR, _ := build(false)
		for _, e := range sc.routes {
			out.emit(map[string]any{"op": "reg", "p": e.idx, "ms": e.ms, "text": e.pat.render(true)})
		}
		nq := 100 + rng.Intn(100)
		for q := 0; q < nq; q++ {
			rq := sc.reqs[rng.Intn(len(sc.reqs))]
			c1, b1, a1, p1 := rcServe(cachedR, rq[0], rq[1])
			c2, b2, a2, p2 := rcServe(plainR, rq[0], rq[1])
			s.Compared++
			if p1 != nil || p2 != nil || c1 != c2 || b1 != b2 || a1 != a2 {
				s.mismatch(map[string]any{"kind": "rcache", "aspect": "transparency", "what": fmt.Sprintf(
					"%s %s: caching router %d %q Allow=%q (panic %v), cache-less twin %d %q Allow=%q (panic %v)", rq[0], rq[1], c1, b1, a1, p1, c2, b2, a2, p2)}, nil)
			}
			ev := map[string]any{"op": "req", "m": rq[0], "path": chars(rq[1]), "p": rq[1]}
			switch {
			case c1 == 200 && strings.HasPrefix(b1, "r"):
				idx := 0
				fmt.Sscanf(b1, "r%d|", &idx)
				ev["kind"], ev["r"] = "route", idx
			case a1 != "":
				ev["kind"], ev["allow"] = "notallowed", strings.Split(a1, ", ")
			default:
				ev["kind"] = "notfound"
			}
			keys := [][2]any{}
			if cc := cachedR.VerifCache(); cc != nil {
				for _, k := range cc.VerifKeys() {
					i := strings.IndexByte(k, '/')
					if i < 0 {
						keys = append(keys, [2]any{k, []string{"?"}})
					} else {
						keys = append(keys, [2]any{k[:i], chars(k[i:])})
					}
				}
			}
			ev["keys"] = keys
			out.emit(ev)
		}
		s.Cases++
	}
}
