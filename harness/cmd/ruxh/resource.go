package main

import (
	"encoding/json"
	"fmt"
	"net/http"
	"net/http/httptest"
	"net/url"
	"sort"
	"strings"

	"github.com/gookit/rux"
)

// family "resource": binds RuxResource (spec/RuxResource.tla) to Router.Resource with 256 generated controller types
// (resctl_gen.go). Each case = an action subset + base path: the registered routes (Routes()/NamedRoutes()) must be
// exactly the documented table, every probe must be served by the predicted action (with only that action's Uses()
// middleware). Registration order follows Go's map iteration, so every case is repeated.

type resCase struct {
	Impl  []string `json:"impl"`
	Base  []string `json:"base"`
	Table []struct {
		Action  string   `json:"action"`
		Methods []string `json:"methods"`
		Path    []string `json:"path"`
	} `json:"table"`
	StrictTable []struct {
		Action  string   `json:"action"`
		Methods []string `json:"methods"`
		Path    []string `json:"path"`
	} `json:"stricttable"`
	Probes [][3]string `json:"probes"`
}

var resActs = []string{"Index", "Create", "Store", "Show", "Edit", "Update", "Delete"}

func init() {
	families["resource"] = &family{replay: resReplay, finish: resFinish}
}

func resReplay(s *Summary, raw json.RawMessage) {
	var c resCase
	if err := json.Unmarshal(raw, &c); err != nil {
		fatal("bad resource case: %v", err)
	}
	mask := 0
	for _, a := range c.Impl {
		for i, x := range resActs {
			if x == a {
				mask |= 1 << i
			}
		}
	}
	s.sample(c)
	base := strings.Join(c.Base, "")
	for _, ctl := range resControllers {
		if ctl.mask != mask {
			continue
		}
		for rep := 0; rep < 9; rep++ {
			resRun(s, &c, ctl, base, rep%3, rep >= 3 && rep < 6, rep >= 6)
		}
		resStrict(s, &c, ctl, base)
		resLate(s, &c, ctl, base)
	}
}

// resLate: the resource is mounted on a caching router that is already serving - catch-all dynamic routes have answered
// (and cached) requests for the resource's fixed paths; from the moment it is mounted, the fixed paths are the resource's
func resLate(s *Summary, c *resCase, ctl resCtl, base string) {
	name := strings.ToLower(ctl.name)
	r := newRouter(cachingOpts(16)...)
	catch := func(cx *rux.Context) { cx.WriteString("catch-all") }
	for _, p := range []string{"/{a}", "/{a}/{b}", "/{a}/{b}/{c}", "/{a}/{b}/{c}/{d}"} {
		r.Add(p, catch, "GET", "POST")
	}
	root := "/" + strings.Trim(base+name, "/")
	pathOf := map[string]string{"root": root, "create": root + "/create"}
	serve := func(m, p string) (int, string) {
		w := httptest.NewRecorder()
		r.ServeHTTP(w, &http.Request{Method: m, URL: &url.URL{Path: p}, Header: http.Header{}, Proto: "HTTP/1.1"})
		return w.Code, w.Body.String()
	}
	for _, p := range pathOf {
		for _, m := range []string{"GET", "HEAD", "POST", "GET"} {
			serve(m, p)
		}
	}
	var pan any
	func() {
		defer func() { pan = recover() }()
		r.Resource(base, ctl.mk())
	}()
	if pan != nil {
		return // (judged by resRun)
	}
	for _, pr := range c.Probes {
		m, kind, action := pr[0], pr[1], pr[2]
		// (only the probes a FIXED route of the resource answers: a cached dynamic match is not re-validated when routes are
		// added later, which no property asks for)
		if !((kind == "root" && (action == "Index" || action == "Store")) || (kind == "create" && action == "Create")) {
			continue
		}
		wantBody := action
		if ctl.uses {
			wantBody = "mw:" + action + ";" + action
		}
		for pass := 1; pass <= 2; pass++ {
			code, body := serve(m, pathOf[kind])
			s.Compared++
			if code != 200 || body != wantBody {
				s.mismatch(map[string]any{"kind": "resource", "aspect": "probe", "controller": ctl.name, "base": base, "what": fmt.Sprintf(
					"Resource(%q, %s implementing %v) mounted on a caching router whose catch-all routes had already answered %s: %s %s (pass %d) answered %d %q, expected action %s (%q)",
					base, ctl.name, c.Impl, pathOf[kind], m, pathOf[kind], pass, code, body, action, wantBody)}, c)
				return
			}
		}
	}
}

// resStrict: on a StrictLastSlash router the registered table keeps the trailing slashes of the resource's relative paths
func resStrict(s *Summary, c *resCase, ctl resCtl, base string) {
	name := strings.ToLower(ctl.name)
	r := rux.New(rux.StrictLastSlash)
	var pan any
	func() {
		defer func() { pan = recover() }()
		r.Resource(base, ctl.mk())
	}()
	s.Compared++
	want, got := []string{}, []string{}
	for _, row := range c.StrictTable {
		ms := append([]string{}, row.Methods...)
		sort.Strings(ms)
		want = append(want, fmt.Sprintf("%s %s", strings.Join(ms, ","), strings.Replace(strings.Join(row.Path, ""), "res", name, 1)))
	}
	for _, ri := range r.Routes() {
		ms := append([]string{}, ri.Methods...)
		sort.Strings(ms)
		e := fmt.Sprintf("%s %s", strings.Join(ms, ","), ri.Path)
		dup := false
		for _, g := range got { // (Routes() lists a route once per method)
			dup = dup || g == e
		}
		if !dup {
			got = append(got, e)
		}
	}
	sort.Strings(want)
	sort.Strings(got)
	if pan != nil || strings.Join(got, "|") != strings.Join(want, "|") {
		s.mismatch(map[string]any{"kind": "resource", "aspect": "table", "controller": ctl.name, "base": base, "what": fmt.Sprintf(
			"Resource(%q, %s implementing %v) on a StrictLastSlash router: registered %v (panic %v), table with the trailing slashes kept %v", base, ctl.name, c.Impl, got, pan, want)}, c)
	}
}

// placement 0: at top level; 1: inside a root-prefix group with three Use calls; 2: inside a group with the prefix /n
// twice: the same controller type is mounted under another base path first, and the application has a route of its own that
// carries the name of one of the resource's actions: the measured mount is complete all the same
func resRun(s *Summary, c *resCase, ctl resCtl, base string, placement int, legacy, twice bool) {
	nested := placement == 1
	outer := ""
	if placement == 2 {
		outer = "/n"
	}
	name := strings.ToLower(ctl.name)
	desc := func(aspect, what string) map[string]any {
		return map[string]any{"kind": "resource", "aspect": aspect, "controller": ctl.name, "uses": ctl.uses, "base": base, "nested": nested, "outer_group": outer,
			"what": fmt.Sprintf("Resource(%q, %s implementing %v, Uses=%v, inside a group with 3 Use calls=%v, inside Group(%q), after Resource(\"/m1/\") of the same type=%v): %s", base, ctl.name, c.Impl, ctl.uses, nested, outer, twice, what)}
	}
	// (every other run on a caching router, every probe sent twice: the second time the dynamic actions come from the cache)
	var r *rux.Router
	if legacy {
		r = newRouter(cachingOpts(4)...)
	} else {
		r = rux.New()
	}
	r.GET("/unrelated", nopHandler)
	if legacy && placement == 0 {
		// hand-written routes on the fixed paths of the resource exist already (an application being migrated): the
		// resource's actions replace them
		lroot := "/" + strings.Trim(base+name, "/")
		old := func(c *rux.Context) { c.WriteString("legacy") }
		for _, a := range c.Impl {
			switch a {
			case "Index":
				r.GET(lroot, old)
			case "Create":
				r.GET(lroot+"/create", old)
			case "Store":
				r.POST(lroot, old)
			}
		}
	}
	var pan any
	grp := nested
	func() {
		defer func() { pan = recover() }()
		if twice {
			r.Resource("/m1/", ctl.mk())
			r.AddNamed(strings.ToLower(ctl.name)+"_show", "/unrelated2", nopHandler)
		}
		if placement == 2 {
			r.Group(outer, func() { r.Resource(base, ctl.mk()) })
			return
		}
		if !grp {
			r.Resource(base, ctl.mk())
			return
		}
		// inside a group whose middleware chain was grown by single Use calls (len 3, cap 4): the chain of every action
		// must be a private copy, Uses() middleware of one action must not show up in another
		r.Group("/", func() {
			r.Use(resMw("g1"))
			r.Use(resMw("g2"))
			r.Use(resMw("g3"))
			r.Resource(base, ctl.mk())
		})
	}()
	s.Compared++
	if pan != nil {
		s.mismatch(desc("registration-panic", fmt.Sprintf("panicked: %v", pan)), c)
		return
	}
	fix := func(p string) string { return strings.Replace(p, "res", name, 1) }
	want := map[string]bool{}
	for _, row := range c.Table {
		ms := append([]string{}, row.Methods...)
		sort.Strings(ms)
		want[fmt.Sprintf("%s %s %s_%s", strings.Join(ms, ","), outer+fix(strings.Join(row.Path, "")), name, strings.ToLower(row.Action))] = true
	}
	got := map[string]bool{}
	for _, ri := range r.Routes() {
		if ri.Path == "/unrelated" || (legacy && ri.Name == "") || (twice && (strings.HasPrefix(ri.Path, "/m1/") || ri.Path == "/unrelated2")) {
			continue
		}
		ms := append([]string{}, ri.Methods...)
		sort.Strings(ms)
		got[fmt.Sprintf("%s %s %s", strings.Join(ms, ","), ri.Path, ri.Name)] = true
	}
	keys := func(m map[string]bool) []string {
		out := []string{}
		for k := range m {
			out = append(out, k)
		}
		sort.Strings(out)
		return out
	}
	if strings.Join(keys(got), "|") != strings.Join(keys(want), "|") {
		s.mismatch(desc("table", fmt.Sprintf("registered %v, documented table %v", keys(got), keys(want))), c)
		return
	}
	for n := range r.NamedRoutes() {
		if !strings.HasPrefix(n, name+"_") {
			s.mismatch(desc("table", fmt.Sprintf("unexpected named route %q", n)), c)
			return
		}
	}
	root := outer + "/" + strings.Trim(base+name, "/")
	pathOf := map[string]string{"root": root, "create": root + "/create", "item": root + "/7", "edit": root + "/7/edit",
		"createedit": root + "/create/edit", "deep": root + "/7/x", "other": "/other"}
	for _, pr := range append(append([][3]string{}, c.Probes...), c.Probes...) {
		m, kind, action := pr[0], pr[1], pr[2]
		w := httptest.NewRecorder()
		r.ServeHTTP(w, &http.Request{Method: m, URL: &url.URL{Path: pathOf[kind]}, Header: http.Header{}, Proto: "HTTP/1.1"})
		s.Compared++
		wantBody := action
		if ctl.uses {
			wantBody = "mw:" + action + ";" + action
		}
		if grp {
			wantBody = "mw:g1;mw:g2;mw:g3;" + wantBody
		}
		if action == "none" {
			if w.Code != 404 {
				s.mismatch(desc("probe", fmt.Sprintf("%s %s answered %d %q, expected 404", m, pathOf[kind], w.Code, w.Body.String())), c)
				return
			}
			continue
		}
		if w.Code != 200 || w.Body.String() != wantBody {
			s.mismatch(desc("probe", fmt.Sprintf("%s %s answered %d %q, expected action %s (%q)", m, pathOf[kind], w.Code, w.Body.String(), action, wantBody)), c)
			return
		}
	}
}

// sharedUses: Uses() hands out the SAME map on every call; registering the controller a second time (another router,
// another base path) must attach the per-action middleware again
type sharedUses struct{}

var sharedUsesMap = map[string][]rux.HandlerFunc{"Index": {resMw("Index"), resMw("IndexB"), resMw("IndexC")}, "Show": {resMw("Show")},
	"Delete": {resMw("Delete"), resMw("DeleteB")}}

func (*sharedUses) Index(c *rux.Context)               { c.WriteString("Index") }
func (*sharedUses) Show(c *rux.Context)                { c.WriteString("Show") }
func (*sharedUses) Delete(c *rux.Context)              { c.WriteString("Delete") }
func (*sharedUses) Uses() map[string][]rux.HandlerFunc { return sharedUsesMap }

type notStruct int

func (notStruct) Index(c *rux.Context) {}

func resFinish(s *Summary) {
	for round := 1; round <= 2; round++ {
		r := rux.New()
		r.Resource("/", &sharedUses{})
		for _, pr := range [][3]string{{"GET", "/shareduses", "mw:Index;mw:IndexB;mw:IndexC;Index"}, {"GET", "/shareduses/7", "mw:Show;Show"},
			{"DELETE", "/shareduses/7", "mw:Delete;mw:DeleteB;Delete"}} {
			w := httptest.NewRecorder()
			r.ServeHTTP(w, &http.Request{Method: pr[0], URL: &url.URL{Path: pr[1]}, Header: http.Header{}, Proto: "HTTP/1.1"})
			s.Compared++
			if w.Body.String() != pr[2] {
				s.mismatch(map[string]any{"kind": "resource", "aspect": "probe", "what": fmt.Sprintf(
					"registration #%d of a controller whose Uses() returns the same map each time: %s %s answered %q, expected %q", round, pr[0], pr[1], w.Body.String(), pr[2])}, nil)
			}
		}
	}
	// several VALUES of one controller type (a shelf per tenant): every mount is served by the actions - and guarded by the
	// Uses() middleware - of the value it was given, on one router and on the next one
	r1, r2 := rux.New(), newRouter(cachingOpts(4)...)
	r1.Resource("/pub/", &Shelf{tag: "pub"})
	r1.Resource("/adm/", &Shelf{tag: "adm"})
	r2.Resource("/", &Shelf{tag: "third"})
	for _, pr := range []struct {
		r               *rux.Router
		m, path, expect string
	}{{r1, "GET", "/pub/shelf", "mw:-pub;pub:Index"}, {r1, "GET", "/adm/shelf", "mw:-adm;adm:Index"}, {r1, "GET", "/adm/shelf/7", "adm:Show"}, {r1, "DELETE", "/pub/shelf/7", "pub:Delete"},
		{r1, "DELETE", "/adm/shelf/7", "adm:Delete"}, {r2, "GET", "/shelf", "mw:-third;third:Index"}, {r2, "GET", "/shelf/7", "third:Show"}, {r2, "GET", "/shelf/7", "third:Show"}} {
		w := httptest.NewRecorder()
		pr.r.ServeHTTP(w, &http.Request{Method: pr.m, URL: &url.URL{Path: pr.path}, Header: http.Header{}, Proto: "HTTP/1.1"})
		s.Compared++
		if w.Body.String() != pr.expect {
			s.mismatch(map[string]any{"kind": "resource", "aspect": "probe", "what": fmt.Sprintf(
				"three values of one controller type mounted as /pub/shelf, /adm/shelf and (next router) /shelf: %s %s answered %q, expected %q", pr.m, pr.path, w.Body.String(), pr.expect)}, nil)
		}
	}
	// two controller types with the SAME type name (two packages / API versions, here two local types) under two base paths,
	// the second one lists a guard for an action it does not implement; and two resources under one base whose names
	// begin alike, the longer one registered second
	r3 := rux.New()
	r3.Resource("/v1/", mkProductV1())
	r3.Resource("/v2/", mkProductV2())
	r3.Resource("/api/", &Book{resImpl{"book"}})
	r3.Resource("/api/", &BookShelf{resImpl{"bookshelf"}})
	for _, pr := range [][3]string{{"DELETE", "/v1/product/7", "v1:Delete"}, {"GET", "/v1/product/7", "v1:Show"}, {"GET", "/v2/product/7", "v2:Show"}, {"GET", "/v2/product", "mw:v2-index;v2:Index"},
		{"GET", "/v1/product", "v1:Index"}, {"DELETE", "/v2/product/7", "<404>"}, {"GET", "/api/book/7", "book:Show"}, {"GET", "/api/bookshelf/7", "bookshelf:Show"},
		{"DELETE", "/api/book/7", "book:Delete"}, {"GET", "/api/book", "book:Index"}, {"GET", "/api/bookshelf", "bookshelf:Index"}} {
		w := httptest.NewRecorder()
		r3.ServeHTTP(w, &http.Request{Method: pr[0], URL: &url.URL{Path: pr[1]}, Header: http.Header{}, Proto: "HTTP/1.1"})
		s.Compared++
		got := w.Body.String()
		if w.Code == 404 {
			got = "<404>"
		}
		if got != pr[2] {
			s.mismatch(map[string]any{"kind": "resource", "aspect": "probe", "what": fmt.Sprintf(
				"Resource(/v1/, Product) + Resource(/v2/, another type named Product whose Uses() lists a guard for Delete, which it does not implement) + Resource(/api/, Book) + Resource(/api/, BookShelf): %s %s answered %q, expected %q",
				pr[0], pr[1], got, pr[2])}, nil)
		}
	}
	// a non-pointer or non-struct controller is rejected
	cases := []struct {
		name string
		v    any
		bad  bool
	}{
		{"struct value", R127{}, true},
		{"pointer to non-struct", new(notStruct), true},
		{"pointer to struct", &R127{}, false},
	}
	for _, tc := range cases {
		var pan any
		func() {
			defer func() { pan = recover() }()
			rux.New().Resource("/", tc.v)
		}()
		s.Compared++
		if (pan != nil) != tc.bad {
			s.mismatch(map[string]any{"kind": "resource", "aspect": "reject", "what": fmt.Sprintf("Resource with a %s controller: panicked=%v, expected %v", tc.name, pan != nil, tc.bad)}, nil)
		}
	}
}

// Shelf: a controller with state; every value serves its own mount
type Shelf struct{ tag string }

func (b *Shelf) Index(c *rux.Context)  { c.WriteString(b.tag + ":Index") }
func (b *Shelf) Show(c *rux.Context)   { c.WriteString(b.tag + ":Show") }
func (b *Shelf) Delete(c *rux.Context) { c.WriteString(b.tag + ":Delete") }
func (b *Shelf) Uses() map[string][]rux.HandlerFunc {
	return map[string][]rux.HandlerFunc{"Index": {resMw("-" + b.tag)}}
}

// resImpl: actions that say which controller value they belong to
type resImpl struct{ tag string }

func (b *resImpl) Index(c *rux.Context)  { c.WriteString(b.tag + ":Index") }
func (b *resImpl) Show(c *rux.Context)   { c.WriteString(b.tag + ":Show") }
func (b *resImpl) Delete(c *rux.Context) { c.WriteString(b.tag + ":Delete") }

type Book struct{ resImpl }
type BookShelf struct{ resImpl }

// resImplNoDelete: index and show only; its Uses() still lists a guard for Delete (left over from an earlier version)
type resImplNoDelete struct{ tag string }

func (b *resImplNoDelete) Index(c *rux.Context) { c.WriteString(b.tag + ":Index") }
func (b *resImplNoDelete) Show(c *rux.Context)  { c.WriteString(b.tag + ":Show") }
func (b *resImplNoDelete) Uses() map[string][]rux.HandlerFunc {
	return map[string][]rux.HandlerFunc{"Delete": {func(c *rux.Context) { c.AbortWithStatus(403) }}, "Index": {resMw(b.tag + "-index")}}
}

func mkProductV1() any {
	type Product struct{ resImpl }
	return &Product{resImpl{"v1"}}
}

func mkProductV2() any {
	type Product struct{ resImplNoDelete }
	return &Product{resImplNoDelete{"v2"}}
}
