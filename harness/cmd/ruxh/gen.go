package main

import (
	"math/rand"
	"strings"
)

// Random generator for rux route patterns of the documented grammar, in the structured form shared with the
// TLA+ specification (spec/RuxPattern.tla): levels of elements (literal char | variable with a class).
// Restrictions (the quantifier of C01): at most one variable per '/'-segment of the flattened pattern, distinct
// variable names, literal characters without regex meaning except '.'.

type pElem struct {
	Lit   string // one literal character, or ""
	Var   string // variable name, or ""
	Class string // any | dig | num | word | all | rest1
}

type pattern [][]pElem

var classRegex = map[string]string{"dig": `\d+`, "all": `.*`, "rest1": `.+`, "word": `\w+`, "ab": `(?:a|b)+`}

const litAlphabet = "abc10._-xy"

func (p pattern) render(rux bool) string {
	var sb strings.Builder
	for li, lv := range p {
		if li > 0 {
			sb.WriteByte('[')
		}
		for _, e := range lv {
			switch {
			case e.Var == "":
				sb.WriteString(e.Lit)
			case e.Class == "any":
				sb.WriteString("{" + e.Var + "}")
			case e.Class == "num" && e.Var == "num":
				sb.WriteString("{num}")
			case rux:
				sb.WriteString("{" + e.Var + ":" + classRegex[e.Class] + "}")
			default:
				sb.WriteString("{" + e.Var + ":" + e.Class + "}")
			}
		}
	}
	sb.WriteString(strings.Repeat("]", len(p)-1))
	return sb.String()
}

func (p pattern) names() []string {
	out := []string{}
	for _, lv := range p {
		for _, e := range lv {
			if e.Var != "" {
				out = append(out, e.Var)
			}
		}
	}
	return out
}

func (p pattern) isStatic() bool { return len(p) == 1 && len(p.names()) == 0 }

func lits(s string) []pElem {
	out := []pElem{}
	for _, c := range s {
		out = append(out, pElem{Lit: string(c)})
	}
	return out
}

func randLit(rng *rand.Rand, min, max int) string {
	n := min + rng.Intn(max-min+1)
	b := make([]byte, n)
	for i := range b {
		b[i] = litAlphabet[rng.Intn(len(litAlphabet))]
	}
	return string(b)
}

func genPattern(rng *rand.Rand) pattern {
	varNames := []string{"x", "y", "id", "name", "p"}
	nv := 0
	usedNum := false
	nseg := 1 + rng.Intn(4)
	segs := make([][]pElem, 0, nseg)
	for i := 0; i < nseg; i++ {
		seg := lits("/")
		kind := rng.Intn(10)
		if i == 0 && rng.Intn(3) > 0 {
			kind = 0 // bias: literal first segment
		}
		mkVar := func() pElem {
			k := rng.Intn(12)
			e := pElem{Var: varNames[nv%len(varNames)], Class: "any"}
			nv++
			switch {
			case k == 6:
				e.Class = "dig"
			case k == 7:
				e.Class = "word"
			case k == 8 && !usedNum:
				e.Var, e.Class, usedNum = "num", "num", true
				nv--
			case k == 9:
				e.Class = "all"
			case k == 10:
				e.Class = "rest1"
			}
			return e
		}
		switch {
		case kind < 4 || nv >= len(varNames):
			seg = append(seg, lits(randLit(rng, 1, 3))...)
		case kind < 7:
			seg = append(seg, mkVar())
		case kind < 8:
			seg = append(seg, lits(randLit(rng, 1, 2))...)
			seg = append(seg, mkVar())
		case kind < 9:
			seg = append(seg, mkVar())
			seg = append(seg, lits(randLit(rng, 1, 2))...)
		default:
			seg = append(seg, lits(randLit(rng, 1, 1))...)
			seg = append(seg, mkVar())
			seg = append(seg, lits(randLit(rng, 1, 1))...)
		}
		segs = append(segs, seg)
	}
	// split the segments into levels (optional tails)
	p := pattern{}
	cur := []pElem{}
	for i, s := range segs {
		if i > 0 && len(p) < 2 && rng.Intn(4) == 0 {
			p = append(p, cur)
			cur = []pElem{}
		}
		cur = append(cur, s...)
	}
	p = append(p, cur)
	if len(p) < 3 && rng.Intn(6) == 0 { // literal-only optional suffix like [.html]
		p = append(p, lits("."+randLit(rng, 1, 2)))
	}
	return p
}

func classValue(rng *rand.Rand, class string) string {
	pick := func(alpha string, min, max int) string {
		n := min + rng.Intn(max-min+1)
		b := make([]byte, n)
		for i := range b {
			b[i] = alpha[rng.Intn(len(alpha))]
		}
		return string(b)
	}
	switch class {
	case "dig":
		return pick("0123456789", 1, 3)
	case "num":
		return pick("123456789", 1, 1) + pick("0123456789", 0, 2)
	case "word":
		return pick("abcxy019_", 1, 3)
	case "all":
		return pick("abc1._-/", 0, 4)
	case "rest1":
		return pick("abc1._-/", 1, 4)
	}
	return pick("abcxy10._-", 1, 3)
}

// instantiate: a path that matches p (with nl levels present)
func (p pattern) instantiate(rng *rand.Rand) string {
	nl := 1 + rng.Intn(len(p))
	var sb strings.Builder
	for _, lv := range p[:nl] {
		for _, e := range lv {
			if e.Var == "" {
				sb.WriteString(e.Lit)
			} else {
				sb.WriteString(classValue(rng, e.Class))
			}
		}
	}
	return sb.String()
}

func mutatePath(rng *rand.Rand, s string) string {
	const alpha = "abc10._-/xy"
	b := []byte(s)
	switch rng.Intn(4) {
	case 0:
		if len(b) > 1 {
			i := 1 + rng.Intn(len(b)-1)
			b = append(b[:i], b[i+1:]...)
		}
	case 1:
		i := 1 + rng.Intn(len(b))
		b = append(b[:i], append([]byte{alpha[rng.Intn(len(alpha))]}, b[i:]...)...)
	case 2:
		if len(b) > 1 {
			b[1+rng.Intn(len(b)-1)] = alpha[rng.Intn(len(alpha))]
		}
	default:
		b = append(b, '/', alpha[rng.Intn(len(alpha)-1)])
	}
	return string(b)
}

// normalPath: make s a fixed point of rux's (non-strict) normalisation: one leading '/', no trailing '/'.
func normalPath(s string) string {
	s = "/" + strings.Trim(s, "/")
	for strings.Contains(s, "//") && strings.HasPrefix(s, "//") {
		s = s[1:]
	}
	return s
}

func chars(s string) []string {
	out := make([]string, 0, len(s))
	for _, c := range s {
		out = append(out, string(c))
	}
	return out
}
