------------------------------- MODULE RuxCache -------------------------------
(***************************************************************************)
(* The route cache of gookit/rux (route_cache.go): a bounded LRU map.      *)
(*                                                                         *)
(* Two descriptions are kept side by side:                                 *)
(*  - declarative: `lru`, a sequence of entries [k, v], most recently used *)
(*    first, updated by the pure operators LSet / LGet / LDel;             *)
(*  - operational: `list` + `hmap`, updated statement by statement the way *)
(*    cachedRoutes.Set/Get/Delete do it (container/list + hash index).     *)
(* TLC checks that the operational description refines the declarative one *)
(* (invariant Refines) and that the declarative one has the properties a   *)
(* user relies on (C14): bounded, recency, eviction of exactly the least   *)
(* recently used key, replace, delete-only.                                *)
(*                                                                         *)
(* Deviation switches (constants) make the operational part misbehave in   *)
(* ways realistic code changes would; they exist so that spec/neg configs  *)
(* can show that every invariant is able to fail (non-vacuity).            *)
(***************************************************************************)
EXTENDS RuxLRU

CONSTANTS Keys,          \* cache keys (strings "method+path" in the code)
          Vals,          \* values (route copies; small integers here)
          Caps,          \* capacities explored (chosen in Init)
          D_EvictFront,  \* deviation: evict the most recent instead of the least recent entry
          D_GetNoTouch,  \* deviation: a hit does not move the entry to the front
          D_SetNoReplace,\* deviation: storing an existing key keeps the old value
          D_OffByOne     \* deviation: evict only when len > cap + 1

VARIABLES cap, lru, list, hmap, last
vars == <<cap, lru, list, hmap, last>>

-----------------------------------------------------------------------------
(* declarative LRU map: operators LSet / LGet / LDel / Has / ValOf ... are defined in RuxLRU *)

-----------------------------------------------------------------------------
(* operational mirror of route_cache.go *)
MoveToFront(l, k) == <<l[Pos(l, k)]>> \o Without(l, k)
Back(l)           == l[Len(l)]
Front(l)          == l[1]

OpSet(k, v) ==
  IF k \in hmap
  THEN \* key has been exists, update value
       LET moved == MoveToFront(list, k) IN
       /\ list' = IF D_SetNoReplace THEN moved ELSE [moved EXCEPT ![1].v = v]
       /\ hmap' = hmap
  ELSE LET pushed == <<Entry(k, v)>> \o list
           limit  == IF D_OffByOne THEN cap + 1 ELSE cap IN
       IF Len(pushed) > limit
       THEN LET victim == IF D_EvictFront THEN Front(pushed) ELSE Back(pushed) IN
            /\ list' = Without(pushed, victim.k)
            /\ hmap' = (hmap \cup {k}) \ {victim.k}
       ELSE /\ list' = pushed
            /\ hmap' = hmap \cup {k}

OpGet(k) ==
  IF k \in hmap
  THEN /\ list' = IF D_GetNoTouch THEN list ELSE MoveToFront(list, k)
       /\ hmap' = hmap
  ELSE UNCHANGED <<list, hmap>>

OpDel(k) ==
  IF k \in hmap
  THEN list' = Without(list, k) /\ hmap' = hmap \ {k}
  ELSE UNCHANGED <<list, hmap>>

-----------------------------------------------------------------------------
Init == /\ cap \in Caps
        /\ lru = <<>> /\ list = <<>> /\ hmap = {}
        /\ last = [op |-> "init"]

Set(k, v) == /\ OpSet(k, v)
             /\ lru' = LSet(lru, cap, k, v)
             /\ last' = [op |-> "set", k |-> k, v |-> v, res |-> TRUE]
             /\ UNCHANGED cap

Get(k) == /\ OpGet(k)
          /\ lru' = LGet(lru, k)
          /\ last' = [op |-> "get", k |-> k, hit |-> (k \in hmap),
                      v |-> IF k \in hmap THEN ValOf(list, k) ELSE 0]
          /\ UNCHANGED cap

\* Has(k) is implemented as Get(k): it also refreshes the entry. The statement is silent on that,
\* so the declarative side allows both (HasTouch / HasPlain); the operational side does what the code does.
HasOp(k) == /\ OpGet(k)
            /\ lru' = LGet(lru, k)
            /\ last' = [op |-> "has", k |-> k, hit |-> (k \in hmap)]
            /\ UNCHANGED cap

Del(k) == /\ OpDel(k)
          /\ lru' = LDel(lru, k)
          /\ last' = [op |-> "del", k |-> k, res |-> (k \in hmap)]
          /\ UNCHANGED cap

LenOp == /\ last' = [op |-> "len", n |-> Len(list)]
         /\ UNCHANGED <<cap, lru, list, hmap>>

Next == \/ \E k \in Keys, v \in Vals : Set(k, v)
        \/ \E k \in Keys : Get(k) \/ HasOp(k) \/ Del(k)
        \/ LenOp

Spec == Init /\ [][Next]_vars

-----------------------------------------------------------------------------
(* O1: operational refines declarative; index consistent with list *)
Refines   == list = lru
IndexOK   == hmap = KeySet(list) /\ Cardinality(hmap) = Len(list)

(* C14, first sentence, stated on the declarative map *)
Bounded   == Len(lru) <= cap
Distinct  == \A i, j \in 1..Len(lru) : i # j => lru[i].k # lru[j].k

\* action properties (checked as [][..]_vars)
MostRecent ==   \* a key just stored or just read (hit) is the most recent
  /\ (last'.op = "set" /\ cap >= 1) => (lru' # <<>> /\ lru'[1].k = last'.k /\ lru'[1].v = last'.v)
  /\ (last'.op = "get" /\ last'.hit) => (lru'[1].k = last'.k /\ lru'[1].v = last'.v)

EvictsLRU ==    \* inserting a new key into a full cache evicts exactly the least recently used key
  (last'.op = "set" /\ ~Has(lru, last'.k) /\ Len(lru) = cap /\ cap >= 1)
     => /\ KeySet(lru') = (KeySet(lru) \ {lru[Len(lru)].k}) \cup {last'.k}
        /\ SubSeq(lru', 2, Len(lru')) = SubSeq(lru, 1, Len(lru) - 1)

NoSpuriousEvict ==  \* nothing is evicted when there is room, or when the key already exists
  (last'.op = "set" /\ (Has(lru, last'.k) \/ Len(lru) < cap))
     => KeySet(lru') = KeySet(lru) \cup {last'.k}

Replace ==      \* storing an existing key replaces its value and nothing else
  (last'.op = "set" /\ Has(lru, last'.k) /\ cap >= 1)
     => /\ ValOf(lru', last'.k) = last'.v
        /\ Without(lru', last'.k) = Without(lru, last'.k)

DeleteOnly ==   \* deleting removes only that key, order of the rest unchanged
  (last'.op = "del") => lru' = Without(lru, last'.k) /\ (last'.res <=> Has(lru, last'.k))

ReadOnlyMiss == \* a miss, and Len, change nothing
  ((last'.op \in {"get", "has"} /\ ~last'.hit) \/ last'.op = "len") => lru' = lru

GetReturns ==   \* a hit returns the stored value, a miss reports absence
  (last'.op = "get") => /\ last'.hit <=> Has(lru, last'.k)
                        /\ last'.hit => last'.v = ValOf(lru, last'.k)

LenReturns == (last'.op = "len") => last'.n = Len(lru)

Laws == MostRecent /\ EvictsLRU /\ NoSpuriousEvict /\ Replace /\ DeleteOnly /\ ReadOnlyMiss
        /\ GetReturns /\ LenReturns
LawsHold == [][Laws]_vars
=============================================================================
