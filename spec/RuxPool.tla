------------------------------- MODULE RuxPool -------------------------------
(***************************************************************************)
(* Pooled contexts and their residue (dispatch.go ServeHTTP /              *)
(* HandleContext, context.go Init / Reset, response_wirter.go reset),      *)
(* property C10: whatever earlier requests did to their context, the       *)
(* handlers of every later request start from a pristine one.              *)
(*                                                                         *)
(* A context is a record of the fields a handler can observe or change.    *)
(* A request takes any idle context from the pool (or a new one), Init     *)
(* resets it FIELD BY FIELD exactly as the code does, the first handler    *)
(* observes it, the handlers mutate it, it goes back to the pool with      *)
(* whatever residue it then has.                                           *)
(***************************************************************************)
EXTENDS Integers, Sequences, FiniteSets, TLC

CONSTANTS Kinds,        \* request kinds: "static", "dynamic", "optional" (a dynamic route without variables), "render" (a static route that renders a template), "notfound", "notallowed", "panic", "panichook", "foreign"
          Mutations,    \* what the handlers of a request do to their context (a request performs a subset)
          MaxPool,
          D_KeepParams, D_KeepData, D_KeepErrors, D_KeepIndex, D_KeepWriter, D_KeepResp, D_KeepReq    \* a field Init/Reset forgets

\* observable fields
Fresh == [data |-> {}, params |-> "none", errors |-> 0, aborted |-> FALSE, status |-> 0, length |-> -1,
          resp |-> "own", req |-> "cur",
          router |-> "own",     \* Context.Router(): the router that serves the request
          query |-> "own",      \* Context.Query*/QueryValues(): the query of THIS request's URL
          accept |-> "own"]     \* Context.AcceptedTypes(): the types of THIS request's Accept header

VARIABLES pool,    \* set of idle contexts (records with residue)
          last     \* [kind, muts, seen]: what the first handler of the last request observed
pvars == <<pool, last>>

Init == pool = {} /\ last = [kind |-> "-", muts |-> {}, seen |-> Fresh]

\* Context.Init(w, req) = writer.reset(w); c.Req = req; c.Reset()
InitCtx(c, viaServeHTTP) ==
  [ data    |-> IF D_KeepData THEN c.data ELSE {},
    params  |-> IF D_KeepParams THEN c.params ELSE "none",
    errors  |-> IF D_KeepErrors THEN c.errors ELSE 0,
    aborted |-> IF D_KeepIndex THEN c.aborted ELSE FALSE,
    status  |-> IF D_KeepWriter \/ ~viaServeHTTP THEN c.status ELSE 0,        \* HandleContext only calls Reset()
    length  |-> IF D_KeepWriter \/ ~viaServeHTTP THEN c.length ELSE -1,
    resp    |-> IF D_KeepResp THEN c.resp ELSE "own",
    req     |-> IF D_KeepReq \/ ~viaServeHTTP THEN c.req ELSE "cur",
    router  |-> "own",          \* a context belongs to the pool of one router
    query   |-> "own",          \* parsed from the request on demand, nothing is kept
    accept  |-> "own" ]

\* what the dispatcher itself stores before the first handler runs
Dispatched(c, kind) == [c EXCEPT !.params = IF kind = "dynamic" THEN "own" ELSE c.params,
                                 !.data = CASE kind \in {"static", "dynamic", "optional", "render", "panic", "panichook", "foreign"} -> {"_route"}
                                            [] kind = "notallowed" -> {"_allowed"}
                                            [] OTHER -> c.data]
Pristine(kind) == Dispatched(Fresh, kind)

Mutate(c, muts) ==
  [ \* "datawrite": the handler writes through the map Data() hands out (nil, hence nothing to write into, when the
    \* dispatcher has stored nothing for this kind of request)
    data    |-> c.data \cup (IF "set" \in muts THEN {"k"} ELSE {}) \cup (IF "datawrite" \in muts /\ c.data # {} THEN {"k2"} ELSE {}),
    params  |-> IF "params" \in muts THEN "dirty" ELSE c.params,
    errors  |-> c.errors + (IF "error" \in muts THEN 1 ELSE 0),
    aborted |-> c.aborted \/ "abort" \in muts,
    \* "hijack": responseWriter.Hijack marks the response as written (length 0) without committing a status
    status  |-> IF "write" \in muts THEN 201 ELSE IF "hijack" \in muts THEN c.status ELSE (IF c.status = 0 THEN 200 ELSE c.status),   \* end-of-dispatch commit
    length  |-> IF "write" \in muts THEN 3 ELSE 0,
    resp    |-> IF "resp" \in muts THEN "replaced" ELSE c.resp,
    req     |-> IF "req" \in muts THEN "replaced" ELSE c.req,
    \* "allowed": the handler edits the list of allowed methods it finds in its context (a 405 request);
    \* "delegate": the handler hands its context to ANOTHER router (other.HandleContext(c)), which dispatches on it;
    \* "query": the handler edits the url.Values it got from QueryValues() - both leave nothing behind in the model
    router  |-> c.router,
    query   |-> c.query,
    accept  |-> c.accept ]

Request(kind, muts) ==
  /\ \E c \in pool \cup {Fresh} :
       LET foreign == kind = "foreign"
           c0  == IF foreign THEN Fresh ELSE c      \* HandleContext with a context the caller built and initialised
           c1  == InitCtx(c0, ~foreign)
           c2  == Dispatched(c1, kind)
           c3  == Mutate(c2, muts)
           back == kind # "panic"          \* without a hook the panic escapes ServeHTTP and the context is not returned
       IN /\ last' = [kind |-> kind, muts |-> muts, seen |-> c2]
          /\ pool' = IF ~back THEN (IF foreign THEN pool ELSE pool \ {c})
                     ELSE IF Cardinality((pool \ {c}) \cup {c3}) <= MaxPool THEN (pool \ {c}) \cup {c3} ELSE pool \ {c}

Next == \E k \in Kinds, m \in SUBSET Mutations : Request(k, m)

\* C10 (action property: `last` is an output)
PristineA == last'.seen = Pristine(last'.kind)
=============================================================================
