----------------------------- MODULE RuxResource -----------------------------
(***************************************************************************)
(* Router.Resource (router.go), property C16: for exactly those of the     *)
(* seven conventional actions the controller implements, the documented    *)
(* method / path / name triple is registered, and nothing else.            *)
(*                                                                         *)
(*   GET        /res            index    res_index                         *)
(*   GET        /res/create     create   res_create                        *)
(*   POST       /res            store    res_store                         *)
(*   GET        /res/{id}       show     res_show                          *)
(*   GET        /res/{id}/edit  edit     res_edit                          *)
(*   PUT/PATCH  /res/{id}       update   res_update                        *)
(*   DELETE     /res/{id}       delete   res_delete                        *)
(*                                                                         *)
(* Declarative: the table above filtered by the implemented actions, and   *)
(* which action serves a probe (create is static and beats show).          *)
(* Operational: the loop of Router.Resource over RESTFulActions building   *)
(* group-relative paths, normalised like any route registered in a group.  *)
(***************************************************************************)
EXTENDS RuxPath, TLC

Actions == {"Index", "Create", "Store", "Show", "Edit", "Update", "Delete"}
Id == <<"{", "i", "d", "}">>
Sl == <<"/">>

\* ---- documented table (suffix after /res, as token sequences) ----------------------------------------
DocMethods(a) == CASE a \in {"Index", "Create", "Show", "Edit"} -> {"GET"}
                   [] a = "Store" -> {"POST"} [] a = "Update" -> {"PUT", "PATCH"} [] a = "Delete" -> {"DELETE"}
DocSuffix(a)  == CASE a \in {"Index", "Store"} -> <<>>
                   [] a = "Create" -> Sl \o <<"c", "r", "e", "a", "t", "e">>
                   [] a = "Edit" -> Sl \o Id \o Sl \o <<"e", "d", "i", "t">>
                   [] OTHER -> Sl \o Id
DocTable(base, impl) == { [action |-> a, methods |-> DocMethods(a), path |-> base \o DocSuffix(a)] : a \in impl }

\* ---- operational: Router.Resource -------------------------------------------------------------------
\* route path given to AddNamed inside Group(basePath+resName)
RelPath(a) == CASE a \in {"Index", "Store"} -> Sl
                [] a = "Create" -> Sl \o <<"c", "r", "e", "a", "t", "e">> \o Sl
                [] a = "Edit" -> Id \o Sl \o <<"e", "d", "i", "t">> \o Sl
                [] OTHER -> Id \o Sl
Registered(groupPrefix, a) == RegPath(FALSE, <<groupPrefix>>, RelPath(a))      \* appendGroupInfo of a route inside the group
OpTable(groupPrefix, impl) == { [action |-> a, methods |-> DocMethods(a), path |-> Registered(groupPrefix, a)] : a \in impl }

\* ---- probes: which action serves (method, path)? path kinds relative to /res ------------------------------
\* "root" /res | "create" /res/create | "item" /res/7 | "edit" /res/7/edit | "createedit" /res/create/edit | "deep" /res/7/x | "other"
Matching(impl, m, kind) ==
  { a \in impl : m \in DocMethods(a) /\
      CASE kind = "root" -> a \in {"Index", "Store"}
        [] kind = "create" -> a \in {"Create", "Show", "Update", "Delete"}        \* /res/create also matches /res/{id}
        [] kind = "item" -> a \in {"Show", "Update", "Delete"}
        [] kind = "edit" -> a = "Edit"
        [] kind = "createedit" -> a = "Edit"                                        \* id = "create"
        [] OTHER -> FALSE }
\* static beats dynamic: create is served by Create whenever it is implemented, never by Show
Serves(impl, m, kind) == LET c == Matching(impl, m, kind) IN
                         IF c = {} THEN "none" ELSE IF "Create" \in c THEN "Create" ELSE CHOOSE a \in c : TRUE
\* a HEAD request without a HEAD route is served by the GET route (C06)
ServesQ(impl, m, kind) == IF m = "HEAD" /\ Serves(impl, m, kind) = "none" THEN Serves(impl, "GET", kind) ELSE Serves(impl, m, kind)
\* at most one dynamic action can match a probe (different methods), so CHOOSE is deterministic
Deterministic(impl) == \A m \in {"GET", "POST", "PUT", "PATCH", "DELETE", "HEAD", "OPTIONS", "CONNECT", "TRACE"} :
                         \A k \in {"root", "create", "item", "edit", "createedit", "deep", "other"} :
                            Cardinality(Matching(impl, m, k) \ {"Create"}) <= 1
=============================================================================
