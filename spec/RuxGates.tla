------------------------------- MODULE RuxGates -------------------------------
(***************************************************************************)
(* Gates (pkg/handlers HTTPBasicAuth, HTTPMethodOverrideHandler;           *)
(* dispatch.go WrapHTTPHandlers; middleware.go WrapHTTPHandler),           *)
(* property C20.  Each gate is given twice: the decision the statement     *)
(* describes, and the steps of the code.                                   *)
(***************************************************************************)
EXTENDS Integers, Sequences, FiniteSets, TLC

CONSTANTS D_AuthUnknownUserPasses,   \* deviation: a user that is not in the account list is let through
          D_OverrideAnyMethod,       \* deviation: the override is applied to non-POST requests too
          D_WrapReversed             \* deviation: the last listed wrapper becomes the outermost

\* ---- HTTPBasicAuth ---------------------------------------------------------------------------------------
\* accounts: function user -> password (possibly empty); cred: [kind |-> "absent" | "malformed" | "basic", user, pwd]
AuthDecl(accounts, cred) ==
  IF cred.kind # "basic" THEN "401"                                                   \* no well-formed credentials: challenge
  ELSE IF DOMAIN accounts = {} \/ (cred.user \in DOMAIN accounts /\ accounts[cred.user] = cred.pwd) THEN "pass"
  ELSE "403"
AuthOp(accounts, cred) ==
  LET ok == cred.kind = "basic" IN                                                    \* user, pwd, ok := c.Req.BasicAuth()
  IF ~ok THEN "401"
  ELSE IF DOMAIN accounts # {}                                                        \* if len(accounts) > 0
       THEN LET known == cred.user \in DOMAIN accounts IN
            IF (~known /\ ~D_AuthUnknownUserPasses) \/ (known /\ accounts[cred.user] # cred.pwd) THEN "403" ELSE "pass"
       ELSE "pass"
DownstreamRuns(result) == result = "pass"
Challenge(result)      == result = "401"                                               \* WWW-Authenticate header present

\* ---- HTTPMethodOverrideHandler ----------------------------------------------------------------------------
Upper(v) == CASE v = "put" -> "PUT" [] v = "patch" -> "PATCH" [] v = "delete" -> "DELETE" [] v = "get" -> "GET" [] v = "post" -> "POST"
              [] v = "Put" -> "PUT" [] OTHER -> v
Target == {"PUT", "PATCH", "DELETE"}
Keep(m)     == [m |-> m, orig |-> "none"]
Rewrite(t)  == [m |-> t, orig |-> "POST"]
OverrideOp(m, form, hdr) ==
  IF m # "POST" /\ ~D_OverrideAnyMethod THEN Keep(m)
  ELSE LET om == IF form # "" THEN form ELSE hdr IN                                    \* FormValue first, then the header
       IF Upper(om) \in Target THEN Rewrite(Upper(om)) ELSE Keep(m)
\* what the statement admits: with one carrier the result is exact; with two carriers that disagree the statement
\* does not say which one wins, so either reading is admissible
OverrideAllowed(m, form, hdr) ==
  IF m # "POST" THEN {Keep(m)}
  ELSE LET cands == { Upper(v) : v \in {form, hdr} \ {""} } IN
       IF cands = {} THEN {Keep(m)}
       ELSE { Rewrite(t) : t \in cands \cap Target } \cup (IF cands \subseteq Target THEN {} ELSE {Keep(m)})

\* ---- WrapHTTPHandlers: the order in which a request enters the wrappers ---------------------------------------
WrapDecl(ws) == ws \o <<"router">>                                                     \* first listed is outermost
RECURSIVE WrapLoop(_, _, _)
WrapLoop(ws, i, wrapped) ==                                                            \* for i := range lst { current := max - i - 1 ...
  IF i >= Len(ws) THEN wrapped
  ELSE LET current == IF D_WrapReversed THEN i + 1 ELSE Len(ws) - i IN WrapLoop(ws, i + 1, <<ws[current]>> \o wrapped)
WrapOp(ws) == WrapLoop(ws, 0, <<"router">>)
=============================================================================
