------------------------------- MODULE RuxServe -------------------------------
(***************************************************************************)
(* In-flight requests of one router (dispatch.go ServeHTTP /               *)
(* handleHTTPRequest), property C03: whatever the interleaving, every      *)
(* request runs exactly the chain it would run alone, and no memory cell   *)
(* of the router is written by one request and touched by another.         *)
(*                                                                         *)
(* Go slices are explicit: a slice is [arr, len]; arrays have a capacity.  *)
(* `append(s, xs...)` writes in place iff len(s)+len(xs) <= cap, otherwise *)
(* it allocates a private array.  Shared arrays: "G" (Router.handlers),    *)
(* "R:k" (Route.handlers of route k), and the lazily initialised field     *)
(* Router.noRoute.  Per request: acquire a context from the pool, resolve, *)
(* assemble the chain, run it one handler boundary at a time, release.     *)
(***************************************************************************)
EXTENDS Integers, Sequences, FiniteSets, TLC

CONSTANTS Reqs,                 \* request ids
          KindOf(_),            \* request -> route it resolves to: "a", "b" (routes) or "nf" (not found)
          GLen, GCap,           \* len / cap of Router.handlers (global middleware)
          MwLen, MwCap,         \* len / cap of every route's own middleware slice
          D_InPlaceAppend,      \* F4/F5: the per-request chain is built with append() on the shared slices
          D_LazyFallbackInit,   \* F6: r.noRoute is assigned on first use, inside the request
          D_EarlyPut,           \* deviation: the context goes back to the pool before the chain has finished
          D_PutBeforeHook,      \* deviation: after a panic the context is released before the OnPanic hook has run
          D_HookPathPuts,       \* deviation: the recover path releases the context after the hook AND ServeHTTP releases it again
          D_RedispatchPuts      \* F23: Router.HandleContext puts the context into the pool although the request that
                                \*      re-dispatched is still using it (and ServeHTTP will put it a second time)

VARIABLES garr,     \* array "G": cells 1..GCap
          rarr,     \* route -> array "R:k": cells 1..MwCap
          noRoute,  \* "unset" | "set"
          pool,     \* BAG of idle contexts: context id -> how many times it is in the pool (sync.Pool does not de-duplicate)
          nextCtx,  \* number of contexts created so far
          pc, ctx, chain, own, pos, log,
          tk,       \* request -> the route kind being dispatched now (differs from KindOf after a re-dispatch)
          phase,    \* request of kind "rd": 0 outer chain, 1 inner chain (HandleContext), 2 back in the re-dispatching handler, 3 returned
          writers, readers   \* cell -> requests that wrote / read it while serving (for the race check)
svars == <<garr, rarr, noRoute, pool, nextCtx, pc, ctx, chain, own, pos, log, tk, phase, writers, readers>>

\* the main handler of route "p" panics (an OnPanic hook is installed); the main handler of route "rd" rewrites the request
\* path to "/a", calls Router.HandleContext(c) and, when that returns, does some more work on its context ("after")
Routes == {"a", "b", "p", "rd"}
After     == <<"after", "rd">>
CtxIds    == 1..Cardinality(Reqs)
EmptyBag  == [c \in CtxIds |-> 0]
Put(c)    == pool' = [pool EXCEPT ![c] = @ + 1]
Hook      == <<"hook">>
G(i)      == <<"g", i>>
Mw(k, i)  == <<"mw", k, i>>
MainOf(k) == <<"main", k>>
NF        == <<"notfound">>
Nil       == <<"nil">>

CellG(i)    == <<"G", i>>
CellR(k, i) == <<"R", k, i>>
CellNoRoute == <<"noRoute">>
Cells == { CellG(i) : i \in 1..GCap } \cup { CellR(k, i) : k \in Routes, i \in 1..MwCap } \cup {CellNoRoute}

Init == /\ garr = [i \in 1..GCap |-> IF i <= GLen THEN G(i) ELSE Nil]
        /\ rarr = [k \in Routes |-> [i \in 1..MwCap |-> IF i <= MwLen THEN Mw(k, i) ELSE Nil]]
        /\ noRoute = IF D_LazyFallbackInit THEN "unset" ELSE "set"
        /\ pool = EmptyBag /\ nextCtx = 0
        /\ tk = [r \in Reqs |-> KindOf(r)] /\ phase = [r \in Reqs |-> 0]
        /\ pc = [r \in Reqs |-> "new"] /\ ctx = [r \in Reqs |-> 0]
        /\ chain = [r \in Reqs |-> [arr |-> "none", len |-> 0]]
        /\ own = [r \in Reqs |-> <<>>] /\ pos = [r \in Reqs |-> 0] /\ log = [r \in Reqs |-> <<>>]
        /\ writers = [c \in Cells |-> {}] /\ readers = [c \in Cells |-> {}]

\* what the request would log if it were alone
SoloP(k, gl, ml) == [i \in 1..gl |-> G(i)] \o (IF k = "nf" THEN <<NF>> ELSE [i \in 1..ml |-> Mw(k, i)] \o <<MainOf(k)>>)
                    \o (IF k = "p" THEN <<Hook>> ELSE <<>>)          \* recover -> r.OnPanic(ctx), then the context is released
                    \o (IF k = "rd" THEN [i \in 1..gl |-> G(i)] \o [i \in 1..ml |-> Mw("a", i)] \o <<MainOf("a"), After>> ELSE <<>>)
Solo(r)  == SoloP(KindOf(r), GLen, MwLen)

Touch(ws, rs) ==   \* record accesses of request-level steps: ws / rs = sets of <<cell, request>>
  /\ writers' = [c \in Cells |-> writers[c] \cup { x[2] : x \in { y \in ws : y[1] = c } }]
  /\ readers' = [c \in Cells |-> readers[c] \cup { x[2] : x \in { y \in rs : y[1] = c } }]

\* ---- ServeHTTP: ctx := pool.Get() ------------------------------------------------------------
Acquire(r) ==
  /\ pc[r] = "new"
  /\ IF pool # EmptyBag
     THEN \E c \in CtxIds : pool[c] > 0 /\ ctx' = [ctx EXCEPT ![r] = c] /\ pool' = [pool EXCEPT ![c] = @ - 1] /\ UNCHANGED nextCtx
     ELSE ctx' = [ctx EXCEPT ![r] = nextCtx + 1] /\ nextCtx' = nextCtx + 1 /\ UNCHANGED pool
  /\ pc' = [pc EXCEPT ![r] = "start"]
  /\ UNCHANGED <<garr, rarr, noRoute, chain, own, pos, log, tk, phase, writers, readers>>

\* ---- handleHTTPRequest up to ctx.SetHandlers: resolve + the two appends -----------------------------
\* handlers = append(route.handlers, route.handler);  handlers = append(r.handlers, handlers...)
Start(r) ==
  /\ pc[r] = "start"
  /\ LET k == tk[r] IN
     IF k = "nf"
     THEN \* if len(r.noRoute) == 0 { r.noRoute = HandlersChain{internal404Handler} }; handlers = r.noRoute
          LET lazy == noRoute = "unset"
              n    == 1                       \* len(handlers) so far
              inpl == D_InPlaceAppend /\ GLen > 0 /\ GLen + n <= GCap IN
          /\ noRoute' = "set"
          /\ IF inpl
             THEN /\ garr' = [garr EXCEPT ![GLen + 1] = NF]
                  /\ chain' = [chain EXCEPT ![r] = [arr |-> "G", len |-> GLen + n]]
                  /\ UNCHANGED own
             ELSE /\ own' = [own EXCEPT ![r] = [i \in 1..GLen |-> garr[i]] \o <<NF>>]
                  /\ chain' = [chain EXCEPT ![r] = [arr |-> "own", len |-> GLen + n]]
                  /\ UNCHANGED garr
          /\ Touch((IF lazy THEN {<<CellNoRoute, r>>} ELSE {}) \cup (IF inpl THEN {<<CellG(GLen + 1), r>>} ELSE {}),
                   {<<CellNoRoute, r>>} \cup { <<CellG(i), r>> : i \in 1..GLen })
          /\ UNCHANGED rarr
     ELSE LET inpl1 == D_InPlaceAppend /\ MwLen + 1 <= MwCap
              t     == [i \in 1..MwLen |-> rarr[k][i]] \o <<MainOf(k)>>     \* the route part of the chain, as values
              n     == MwLen + 1
              inpl2 == D_InPlaceAppend /\ GLen > 0 /\ GLen + n <= GCap IN
          /\ rarr' = IF inpl1 THEN [rarr EXCEPT ![k][MwLen + 1] = MainOf(k)] ELSE rarr
          /\ IF GLen = 0
             THEN IF inpl1
                  THEN chain' = [chain EXCEPT ![r] = [arr |-> k, len |-> n]] /\ UNCHANGED <<own, garr>>
                  ELSE own' = [own EXCEPT ![r] = t] /\ chain' = [chain EXCEPT ![r] = [arr |-> "own", len |-> n]] /\ UNCHANGED garr
             ELSE IF inpl2
                  THEN /\ garr' = [i \in 1..GCap |-> IF i > GLen /\ i <= GLen + n THEN t[i - GLen] ELSE garr[i]]
                       /\ chain' = [chain EXCEPT ![r] = [arr |-> "G", len |-> GLen + n]]
                       /\ UNCHANGED own
                  ELSE /\ own' = [own EXCEPT ![r] = [i \in 1..GLen |-> garr[i]] \o t]
                       /\ chain' = [chain EXCEPT ![r] = [arr |-> "own", len |-> GLen + n]]
                       /\ UNCHANGED garr
          /\ Touch((IF inpl1 THEN {<<CellR(k, MwLen + 1), r>>} ELSE {})
                       \cup (IF GLen > 0 /\ inpl2 THEN { <<CellG(i), r>> : i \in (GLen + 1)..(GLen + n) } ELSE {}),
                   { <<CellR(k, i), r>> : i \in 1..MwLen } \cup { <<CellG(i), r>> : i \in 1..GLen })
          /\ UNCHANGED noRoute
  /\ pc' = [pc EXCEPT ![r] = "run"] /\ pos' = [pos EXCEPT ![r] = 1]
  /\ UNCHANGED <<pool, nextCtx, ctx, log, tk, phase>>

\* ---- one handler boundary: c.handlers[c.index](c) -----------------------------------------------------
CellValue(r, i) == CASE chain[r].arr = "G"   -> garr[i]
                     [] chain[r].arr = "own" -> own[r][i]
                     [] OTHER                -> rarr[chain[r].arr][i]
CellName(r, i)  == CASE chain[r].arr = "G"   -> {<<CellG(i), r>>}
                     [] chain[r].arr = "own" -> {}
                     [] OTHER                -> {<<CellR(chain[r].arr, i), r>>}
Hooked(r) == KindOf(r) = "p"
Redisp(r) == KindOf(r) = "rd"
Boundary(r) ==
  /\ pc[r] = "run"
  /\ IF pos[r] <= chain[r].len
     THEN /\ log' = [log EXCEPT ![r] = Append(@, CellValue(r, pos[r]))]
          /\ pos' = [pos EXCEPT ![r] = @ + 1]
          /\ Touch({}, CellName(r, pos[r]))
          /\ IF (D_EarlyPut /\ pos[r] = 1 /\ phase[r] = 0) \/ (D_PutBeforeHook /\ Hooked(r) /\ pos[r] = chain[r].len)
                \/ (D_RedispatchPuts /\ phase[r] = 1 /\ pos[r] = chain[r].len)   \* the inner chain is over: HandleContext -> ctxPool.Put(c)
             THEN Put(ctx[r]) ELSE UNCHANGED pool
          /\ phase' = IF phase[r] = 1 /\ pos[r] = chain[r].len THEN [phase EXCEPT ![r] = 2] ELSE phase
          /\ UNCHANGED <<pc, tk>>
     ELSE IF Hooked(r) /\ pos[r] = chain[r].len + 1
     THEN \* the main handler panicked: handleHTTPRequest recovers and runs r.OnPanic(ctx) on the same context
          /\ log' = [log EXCEPT ![r] = Append(@, Hook)]
          /\ pos' = [pos EXCEPT ![r] = @ + 1]
          /\ IF D_HookPathPuts THEN Put(ctx[r]) ELSE UNCHANGED pool
          /\ UNCHANGED <<pc, writers, readers, tk, phase>>
     ELSE IF Redisp(r) /\ phase[r] = 0
     THEN \* the main handler of "rd" has logged and calls HandleContext: Reset, then resolve + assemble again (Start)
          /\ pc' = [pc EXCEPT ![r] = "start"] /\ tk' = [tk EXCEPT ![r] = "a"] /\ phase' = [phase EXCEPT ![r] = 1]
          /\ UNCHANGED <<log, pos, pool, writers, readers>>
     ELSE IF Redisp(r) /\ phase[r] = 2
     THEN \* HandleContext has returned; the re-dispatching handler goes on working with its context
          /\ log' = [log EXCEPT ![r] = Append(@, After)]
          /\ phase' = [phase EXCEPT ![r] = 3]
          /\ UNCHANGED <<pc, pos, pool, writers, readers, tk>>
     ELSE /\ pc' = [pc EXCEPT ![r] = "done"]
          /\ Put(ctx[r])                                             \* ServeHTTP: r.ctxPool.Put(ctx)
          /\ UNCHANGED <<log, pos, writers, readers, tk, phase>>
  /\ UNCHANGED <<garr, rarr, noRoute, nextCtx, ctx, chain, own>>

Next == \E r \in Reqs : Acquire(r) \/ Start(r) \/ Boundary(r)

\* ---- C03 ------------------------------------------------------------------------------------------
InFlight(r) == pc[r] \in {"start", "run"}
NoInterference == \A r \in Reqs : /\ pc[r] = "done" => log[r] = Solo(r)
                                  /\ \A i \in 1..Len(log[r]) : log[r][i] = Solo(r)[i]
NoSharedCtx    == /\ \A r1, r2 \in Reqs : (r1 # r2 /\ InFlight(r1) /\ InFlight(r2)) => ctx[r1] # ctx[r2]
                  /\ \A r \in Reqs : InFlight(r) => pool[ctx[r]] = 0       \* a context in use is not in the pool ...
                  /\ \A c \in CtxIds : pool[c] <= 1                        \* ... and no context is in the pool twice
\* requests are not ordered by any synchronisation, so a cell written by one request while serving and touched
\* by another request is a data race whatever the interleaving
NoModelRace    == \A c \in Cells : \A w \in writers[c] : (writers[c] \cup readers[c]) \subseteq {w}
=============================================================================
