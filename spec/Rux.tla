---------------------------------- MODULE Rux ----------------------------------
(***************************************************************************)
(* Composition: one router from registration to serving.                   *)
(*                                                                         *)
(*   registration   a program of Group / Use / GET / Route.Use statements  *)
(*                  (RuxReg) - every registered route also enters the      *)
(*                  three-tier index (RuxIndex.Register);                  *)
(*   serving        a history of requests, each resolved through the index *)
(*                  and the LRU cache (RuxRouterCache.QuickMatchC), run    *)
(*                  through the handler chain  global ++ group ++ route ++ *)
(*                  main  or  global ++ fallback  (RuxReg.ChainOf,         *)
(*                  RuxChainFn.IdealDispatch) with the lazy writer.        *)
(*                                                                         *)
(* The state space is far too large to exhaust; the module is driven with  *)
(* `tlc -simulate` to produce long mixed behaviours that are replayed step *)
(* by step on the real router (family "rux"), with the invariants of the   *)
(* component modules evaluated on every simulated state.                   *)
(*                                                                         *)
(* Pool (PoolDef) must contain every FULL route pattern that a program can *)
(* register (group prefixes included); PoolToks[i] is the token text of    *)
(* pool pattern i.  Handler behaviour is a script chosen per handler when  *)
(* the statement that creates it executes.                                 *)
(***************************************************************************)
EXTENDS RuxRouterCache, RuxReg

CONSTANTS MaxInt, AbortIdx, D_NextCreeps, D_FlushNoCommit, D_PanicNoCommit,
          MinStmts, MaxStmts, MaxDepth, MaxRoutes, MaxReqs

Ch == INSTANCE RuxChainFn

VARIABLES scr,     \* handler id <<statement, index>> -> script name
          phase,   \* "reg" | "serve"
          nreq,
          hist     \* the behaviour so far, with the predicted observation of every request
allvars == <<cvars, regvars, scr, phase, nreq, hist>>

MwScripts == {"N", "R", "A", "S", "E", "D"}
ScriptOf(name) ==
  CASE name = "N" -> << <<"in">>, <<"next">>, <<"out">> >>          \* calls Next
    [] name = "R" -> << <<"in">>, <<"out">> >>                       \* returns without Next (the chain continues)
    [] name = "A" -> << <<"in">>, <<"abort">>, <<"out">> >>          \* aborts
    [] name = "S" -> << <<"in">>, <<"status", 202>>, <<"next">>, <<"out">> >>
    [] name = "E" -> << <<"in">>, <<"err">>, <<"next">>, <<"out">> >>  \* records an error: the OnError handler runs after the chain
    [] name = "D" -> << <<"in">>, <<"next">>, <<"out">> >>             \* leaves data / a replaced request in its context (invisible here:
                                                                      \* the NEXT request must not see it - the harness probes every context on entry)
    [] name = "M" -> << <<"in">>, <<"write", 2, "full">>, <<"out">> >>     \* main handlers write their tag
    [] name = "MP" -> << <<"in">>, <<"panic">> >>                    \* a main handler that panics: the OnPanic hook answers
    [] name = "NF" -> << <<"httpError", 404, 19>> >>                 \* default 404 handler (not instrumented)
    [] name = "NA" -> << <<"httpError", 405, 19>> >>                 \* default 405 handler
    [] name = "NAO" -> << <<"status", 200>> >>                       \* default 405 handler for OPTIONS

\* the router's hooks (not instrumented, so they log nothing)
OnErrorScript == << <<"status", 500>> >>                               \* r.OnError: c.SetStatus(500)
OnPanicScript == << <<"status", 503>>, <<"write", 3, "full">> >>        \* r.OnPanic: c.SetStatus(503); write 3 bytes
GroupPrefixes == { <<"/", "g">>, <<"h">> }
BasePaths == { <<"/", "s">>, <<"/", "d", "/", "{", "i", "d", "}">>, <<"o", "[", "/", "{", "x", "}", "]">> }
PoolIdx(text) == CHOOSE i \in 1..NP : PoolToks[i] = text

Init == /\ IndexInit /\ RegInit
        /\ opts \in { [hmna |-> a, hfb |-> FALSE, icpt |-> <<>>] : a \in BOOLEAN }
        /\ todo = <<>> /\ cap \in Caps /\ cache = <<>> /\ last = [m |-> "-", q |-> 0]
        /\ scr = <<>> /\ phase = "reg" /\ nreq = 0 /\ hist = <<>>

NewScripts(pos, n, names) == [id \in { <<pos, i>> : i \in 1..n } |-> names[id[2]]]
Scripted(f) == scr' = f @@ scr
NoServe == UNCHANGED <<opts, todo, cap, cache, last, nreq>>

\* ---- registration statements ------------------------------------------------------------------------
REnter == \E p \in GroupPrefixes, n \in 0..1, s1 \in MwScripts :
            /\ Depth < MaxDepth /\ Enter(p, n, FALSE)
            /\ Scripted(NewScripts(Len(prog) + 1, n, <<s1>>))
            /\ hist' = Append(hist, [op |-> "enter", prefix |-> p, mw |-> n, scripts |-> SubSeq(<<s1>>, 1, n)])
            /\ UNCHANGED ivars
RExit  == /\ Exit /\ UNCHANGED <<scr, ivars>> /\ hist' = Append(hist, [op |-> "exit"])
RUse   == \E n \in 1..2, s1 \in MwScripts, s2 \in MwScripts :
            /\ Use(n) /\ Scripted(NewScripts(Len(prog) + 1, n, <<s1, s2>>))
            /\ hist' = Append(hist, [op |-> "use", mw |-> n, scripts |-> SubSeq(<<s1, s2>>, 1, n)])
            /\ UNCHANGED ivars
RAdd   == \E p \in BasePaths, n \in 0..1, s1 \in MwScripts, ms \in { {"GET"}, {"GET", "POST"} }, mn \in {"M", "MP"} :
            /\ Len(routes) < MaxRoutes /\ Add(p, n)
            /\ LET full == routes'[Len(routes')].path IN
               /\ \E i \in 1..NP : PoolToks[i] = full                       \* the pool is closed under the program alphabet
               /\ ~StaticClash(PoolIdx(full), ms)
               /\ Register(PoolIdx(full), ms)
            /\ Scripted(NewScripts(Len(prog) + 1, n, <<s1>>) @@ (<<Len(prog) + 1, 0>> :> mn))
            /\ hist' = Append(hist, [op |-> "add", path |-> p, mw |-> n, scripts |-> SubSeq(<<s1>>, 1, n), ms |-> ms, main |-> mn])
\* Resource(base, &Regres{}, n middleware): one fixed GET route "<prefix>/regres" (RuxReg.Res), registered in the index too
ResBases == { <<"/">>, <<>> }
RRes   == \E b \in ResBases, n \in 0..1, s1 \in MwScripts :
            /\ Len(routes) < MaxRoutes /\ Res(b, n)
            /\ LET full == routes'[Len(routes')].path IN
               /\ \E i \in 1..NP : PoolToks[i] = full
               /\ ~StaticClash(PoolIdx(full), {"GET"})
               /\ Register(PoolIdx(full), {"GET"})
            /\ Scripted(NewScripts(Len(prog) + 1, n, <<s1>>) @@ (<<Len(prog) + 1, 0>> :> "M"))
            /\ hist' = Append(hist, [op |-> "res", base |-> b, mw |-> n, scripts |-> SubSeq(<<s1>>, 1, n), main |-> "M"])
RRUse  == \E s1 \in MwScripts :
            /\ Len(routes) > 0 /\ RouteUse(Len(routes), 1)
            /\ Scripted(NewScripts(Len(prog) + 1, 1, <<s1>>))
            /\ hist' = Append(hist, [op |-> "ruse", route |-> Len(routes), mw |-> 1, scripts |-> <<s1>>])
            /\ UNCHANGED ivars
StartServing == /\ phase = "reg" /\ saved = <<>> /\ Len(routes) >= 1 /\ Len(prog) >= MinStmts
                /\ phase' = "serve" /\ hist' = Append(hist, [op |-> "serve", hmna |-> opts.hmna, cap |-> cap])
                /\ UNCHANGED <<ivars, regvars, scr>> /\ NoServe

RegStmt == /\ phase = "reg"
           /\ IF Len(prog) < MaxStmts THEN (REnter \/ RExit \/ RUse \/ RAdd \/ RRes \/ RRUse)
              ELSE RExit                                       \* only close the groups that are still open
           /\ UNCHANGED phase /\ NoServe

\* ---- serving -----------------------------------------------------------------------------------------
\* the handler ids a resolution runs, in order, and their scripts
ChainIds(res, m) ==
  CASE res.kind = "route" -> ChainOf(res.r)
    [] res.kind = "notallowed" -> global \o << <<0, IF m = "OPTIONS" THEN 2 ELSE 1>> >>
    [] OTHER -> global \o << <<0, 0>> >>
ScriptName(id) == IF id = <<0, 0>> THEN "NF" ELSE IF id = <<0, 1>> THEN "NA" ELSE IF id = <<0, 2>> THEN "NAO" ELSE scr[id]
Observe(res, m) ==
  LET ids == ChainIds(res, m)
      d   == Ch!IdealDispatch([i \in 1..Len(ids) |-> ScriptOf(ScriptName(ids[i]))], OnErrorScript, OnPanicScript)
      \* the log in terms of handler ids (default fallback handlers are not instrumented and log nothing)
      lg  == [i \in 1..Len(d.log) |-> <<d.log[i][1], ids[d.log[i][2]], d.log[i][3]>>]
  IN [kind |-> res.kind, r |-> res.r, allow |-> res.allow, log |-> lg, status |-> d.w.under[1][2], under |-> d.w.under]

Serve(m, q) ==
  /\ phase = "serve" /\ nreq < MaxReqs
  /\ Request(m, q)
  /\ nreq' = nreq + 1
  /\ hist' = Append(hist, [op |-> "req", m |-> m, path |-> PathSeq[q], obs |-> Observe(last'.res, m),
                           keys |-> [i \in 1..Len(cache') |-> <<cache'[i].k[1], PathSeq[cache'[i].k[2]]>>]])
  /\ UNCHANGED <<regvars, scr, phase>>

ReqMethodsAll == {"GET", "POST", "HEAD", "OPTIONS"}
Next == RegStmt \/ StartServing \/ (\E m \in ReqMethodsAll, q \in ReqQs : Serve(m, q))

\* ---- what is checked on every simulated state --------------------------------------------------------------
IndexMirrorsRoutes == /\ Len(tbl) = Len(routes)
                      /\ \A k \in 1..Len(routes) : PoolToks[tbl[k].p] = routes[k].path
Composite == RoutesAgree /\ NoResidue /\ CacheBounded /\ CacheSound /\ IndexMirrorsRoutes
TransparentP == [][TransparentA]_allvars
BehaviourDone == phase = "serve" /\ nreq = MaxReqs
=============================================================================
