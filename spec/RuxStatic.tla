------------------------------- MODULE RuxStatic -------------------------------
(***************************************************************************)
(* Static file handlers (router.go StaticDir / StaticFS / StaticFiles /    *)
(* StaticFile), property C17: only bytes of files under the configured     *)
(* root are ever returned; StaticFiles additionally serves only request    *)
(* paths that end in an allowed extension.                                 *)
(*                                                                         *)
(* The file system is abstract: a tree under the root and a secret beside  *)
(* the root.  A request names a sequence of raw URL segments after the     *)
(* handler's prefix; segments may carry percent escapes.  The rux side of  *)
(* the pipeline (route regex on the decoded path, StripPrefix or           *)
(* URL.Path = Param("file"), extension regex) and the cleaning that the    *)
(* file server performs are modelled; reading bytes is not.                *)
(***************************************************************************)
EXTENDS Integers, Sequences, FiniteSets, SequencesExt, TLC

CONSTANTS D_NoClean,       \* deviation: the handler joins root and the captured path without cleaning (os.ReadFile(filepath.Join(..)))
          D_ExtOnRawTail   \* deviation: the extension is tested on the last raw segment before decoding

\* raw URL segment tokens and their decoded form (a decoded token may contain '/', ie be several path segments)
Decode(t) == CASE t = "%2e%2e" -> <<"..">>
               [] t = "sub%2f.." -> <<"sub", "..">>
               [] t = "..%2fsecret.txt" -> <<"..", "secret.txt">>
               [] t = "..%2f..%2fsecret.css" -> <<"..", "..", "secret.css">>
               [] t = "%252e%252e" -> <<"%2e%2e">>                    \* doubly encoded: ONE decoding leaves a harmless literal name
               [] t = "%252e%252e%252fsecret.txt" -> <<"%2e%2e%2fsecret.txt">>
               [] OTHER -> <<t>>
Decoded(segs) == FlattenSeq([i \in 1..Len(segs) |-> Decode(segs[i])])

\* the tree under the root (paths as sequences of names); everything else does not exist inside
\* ("lib.js" is a DIRECTORY whose name ends like an allowed extension; it has an index.html)
Tree == [p \in { <<>>, <<"a.txt">>, <<"a.css">>, <<"index.html">>, <<"sub">>, <<"sub", "b.js">>, <<"c.mjs">>,
                 <<"lib.js">>, <<"lib.js", "index.html">> } |->
           IF p \in { <<>>, <<"sub">>, <<"lib.js">> } THEN "dir" ELSE "file"]
\* files that exist OUTSIDE the root, addressed relative to the root with leading ".."
\* (root-internal is a sibling directory whose name starts with the root's name)
Outside == { <<"..", "secret.txt">>, <<"..", "secret.css">>, <<"..", "root-internal", "key.css">>, <<"..", "index.html">> }

\* path.Clean on a rooted path: '.' and '' vanish, '..' pops but never above the root
RECURSIVE CleanFrom(_, _, _)
CleanFrom(segs, i, acc) ==
  IF i > Len(segs) THEN acc
  ELSE LET s == segs[i] IN
       CleanFrom(segs, i + 1, IF s \in {"", "."} THEN acc
                              ELSE IF s = ".." THEN (IF acc = <<>> THEN <<>> ELSE SubSeq(acc, 1, Len(acc) - 1))
                              ELSE Append(acc, s))
Clean(segs) == CleanFrom(segs, 1, <<>>)
\* without cleaning, '..' walks out of the root
RECURSIVE WalkFrom(_, _, _)
WalkFrom(segs, i, acc) ==
  IF i > Len(segs) THEN acc
  ELSE LET s == segs[i] IN
       WalkFrom(segs, i + 1, IF s \in {"", "."} THEN acc
                             ELSE IF s = ".." THEN (IF acc # <<>> /\ acc[Len(acc)] # ".." THEN SubSeq(acc, 1, Len(acc) - 1) ELSE Append(acc, ".."))
                             ELSE Append(acc, s))
Resolve(segs) == IF D_NoClean THEN WalkFrom(segs, 1, <<>>) ELSE Clean(segs)

ExtOf(name) == CASE name \in {"a.txt", "secret.txt"} -> "txt" [] name \in {"a.css", "secret.css", "key.css"} -> "css"
                 [] name \in {"b.js", "lib.js"} -> "js" [] name = "c.mjs" -> "mjs" [] name = "index.html" -> "html" [] OTHER -> ""
\* the request path rux matches is normalised (trailing slashes dropped): the last non-empty decoded segment counts
LastName(segs) == LET ne == SelectSeq(segs, LAMBDA s : s # "") IN IF ne = <<>> THEN "" ELSE ne[Len(ne)]
ExtAllowed(exts, raw) == ExtOf(LastName(IF D_ExtOnRawTail THEN raw ELSE Decoded(raw))) \in exts

\* what a handler may return for the raw segments after its prefix
NoneRes == [kind |-> "none", path |-> <<>>]
Lookup(p) == IF p \in DOMAIN Tree THEN [kind |-> Tree[p], path |-> p]
             ELSE IF p \in Outside THEN [kind |-> "OUTSIDE", path |-> p] ELSE NoneRes
\* the route regex {file:.+} needs a non-empty remainder after normalisation
Reaches(raw) == SelectSeq(Decoded(raw), LAMBDA s : s # "") # <<>>
ServedDir(raw)         == IF Reaches(raw) THEN Lookup(Resolve(Decoded(raw))) ELSE NoneRes
ServedFiles(exts, raw) == IF Reaches(raw) /\ ExtAllowed(exts, raw) THEN Lookup(Resolve(Decoded(raw))) ELSE NoneRes

\* ---- C17 ---------------------------------------------------------------------------------------------
Confined(res)        == res.kind # "OUTSIDE"
ExtRule(exts, raw)   == ServedFiles(exts, raw).kind = "file" => ExtOf(LastName(Decoded(raw))) \in exts
NeverAbove(raw)      == \A i \in 1..Len(Clean(Decoded(raw))) : Clean(Decoded(raw))[i] \notin {"..", ".", ""}
=============================================================================
