------------------------------ MODULE TraceIndex ------------------------------
(* Trace validation for route selection (C01/C02): the harness (family "matchrec") registers random    *)
(* tables of up to 10 freshly generated patterns over all nine methods on a real router and records    *)
(* one event per Router.Match call.  Registration events are replayed through the Register action of   *)
(* RuxIndex; each match event must agree with the declarative selection and its parameters must be one *)
(* of the admissible decompositions.  PoolDef is generated from the header line of the trace.          *)
EXTENDS RuxIndex, Json, IOUtils

Trace == ndJsonDeserialize(IOEnv.TRACE)
VARIABLES l, ok
tvars == <<ivars, l, ok>>
E == Trace[l]

TraceInit == IndexInit /\ l = 1 /\ ok = TRUE /\ TLCSet(1, 0) /\ TLCSet(2, 0)

HeadSel(m, p)  == IF SelectPath(m, p) # 0 \/ m # "HEAD" THEN SelectPath(m, p) ELSE SelectPath("GET", p)
HeadLook(m, p) == IF LookupPath(m, p) # 0 \/ m # "HEAD" THEN LookupPath(m, p) ELSE LookupPath("GET", p)

TReset == E.op = "reset" /\ tbl' = <<>> /\ stable' = {} /\ regular' = <<>> /\ irregular' = <<>> /\ ok' = TRUE
THdr   == E.op = "hdr" /\ UNCHANGED ivars /\ ok' = TRUE
TReg   == E.op = "reg" /\ Register(E.p, ToSet(E.ms)) /\ ok' = TRUE
TMatch == /\ E.op = "match" /\ UNCHANGED ivars
          \* Router.Match = QuickMatch: a HEAD request without a HEAD route falls back to GET (C06)
          /\ LET sel == HeadSel(E.m, E.path)
                 opl == HeadLook(E.m, E.path) IN
             /\ (IF opl = sel THEN TRUE ELSE TLCSet(2, l))   \* the specification itself disagrees: not a verdict about the code
             /\ ok' = /\ E.got = sel
                      /\ sel # 0 => ToSet(E.ps) \in { ToSet(b) : b \in Decomps(PatOf(sel), E.path) }
                      /\ sel = 0 => E.ps = <<>>

TraceNext == /\ ok /\ l <= Len(Trace)
             /\ (TReset \/ THdr \/ TReg \/ TMatch)
             /\ l' = l + 1
             /\ (IF ok' THEN TRUE ELSE TLCSet(1, l))

Post == LET bad == TLCGet(1) IN
        IF bad = 0 /\ TLCGet("stats").diameter = Len(Trace) + 1
        THEN PrintT(ToJson([verdict |-> "ACCEPT", lines |-> Len(Trace), specbad |-> TLCGet(2)]))
        ELSE PrintT(ToJson([verdict |-> "REJECT", line |-> bad, diameter |-> TLCGet("stats").diameter,
                            lines |-> Len(Trace), specbad |-> TLCGet(2)]))
=============================================================================
