------------------------------ MODULE TraceServe ------------------------------
(* Trace validation for concurrent serving (C03): the stress recorder (family "servestress", built with -race) serves    *)
(* thousands of requests from 2..8 goroutines on router shapes drawn from the seed and records, per request, the handler *)
(* tags it executed.  Requests are validated one by one against the solo prediction of RuxServe (no cross-request order  *)
(* is inferred from time).  The default 404 handler is not instrumented, so its tag is dropped from the prediction.      *)
EXTENDS RuxServe, Json, IOUtils

Trace == ndJsonDeserialize(IOEnv.TRACE)
VARIABLES l, ok
E == Trace[l]
TraceInit == Init /\ l = 1 /\ ok = TRUE /\ TLCSet(1, 0)
TKind(r) == "a"
Expected(e) == SelectSeq(SoloP(e.kind, e.glen, e.mwlen), LAMBDA x : x # NF)
TraceNext == /\ ok /\ l <= Len(Trace)
             /\ UNCHANGED svars
             /\ ok' = (E.op = "req" /\ E.log = Expected(E) /\ (E.kind = "nf" => E.code \in {404, 405}) /\ (E.kind # "nf" => E.code = 200))
             /\ l' = l + 1
             /\ (IF ok' THEN TRUE ELSE TLCSet(1, l))
Post == LET bad == TLCGet(1) IN
        IF bad = 0 /\ TLCGet("stats").diameter = Len(Trace) + 1
        THEN PrintT(ToJson([verdict |-> "ACCEPT", lines |-> Len(Trace)]))
        ELSE PrintT(ToJson([verdict |-> "REJECT", line |-> bad, diameter |-> TLCGet("stats").diameter, lines |-> Len(Trace)]))
=============================================================================
