------------------------------- MODULE TraceRepo -------------------------------
(* Trace validation of the REPOSITORY'S OWN TEST SUITE: `go test -tags verif` with VERIF_TRACE set records every route  *)
(* registration and every dispatched request of every router the tests build (hooks verifRegistered / verifMatched).   *)
(* The recorder groups the events per router, translates route paths into the pattern syntax of the specification      *)
(* (routers using constructs outside the modelled grammar are skipped and counted) and TLC checks that every dispatch  *)
(* resolved exactly as the declarative resolution of RuxResolve says: same route, same allowed set.                    *)
EXTENDS RuxResolve, Json, IOUtils

Trace == ndJsonDeserialize(IOEnv.TRACE)
VARIABLES l, ok, strict
E == Trace[l]

TraceInit == /\ IndexInit /\ opts = [hmna |-> FALSE, hfb |-> FALSE, icpt |-> <<>>] /\ strict = FALSE
             /\ l = 1 /\ ok = TRUE /\ TLCSet(1, 0) /\ TLCSet(2, 0)
THdr   == E.op = "hdr" /\ UNCHANGED <<ivars, opts, strict>> /\ ok' = TRUE
TReset == /\ E.op = "reset" /\ tbl' = <<>> /\ stable' = {} /\ regular' = <<>> /\ irregular' = <<>>
          /\ opts' = [hmna |-> E.hmna, hfb |-> E.hfb, icpt |-> E.icpt] /\ strict' = E.strict /\ ok' = TRUE
TReg   == E.op = "reg" /\ Register(E.p, ToSet(E.ms)) /\ UNCHANGED <<opts, strict>> /\ ok' = TRUE
TReq   == /\ E.op = "req" /\ UNCHANGED <<ivars, opts, strict>>
          /\ LET q   == QOf(Norm(strict, E.path))
                 res == Resolve(E.m, q)
                 op  == QuickMatch(E.m, q) IN
             /\ (IF op = res THEN TRUE ELSE TLCSet(2, l))          \* the specification itself disagrees: not a verdict about the code
             /\ ok' = /\ (res.kind = "route") = (E.got # 0)
                      /\ (res.kind = "route" => res.r = E.got)
                      /\ (res.kind = "notallowed" => res.allow = ToSet(E.allow))
                      /\ (res.kind # "notallowed" => E.allow = <<>>)
TraceNext == /\ ok /\ l <= Len(Trace)
             /\ (THdr \/ TReset \/ TReg \/ TReq)
             /\ l' = l + 1
             /\ (IF ok' THEN TRUE ELSE TLCSet(1, l))
Post == LET bad == TLCGet(1) IN
        IF bad = 0 /\ TLCGet("stats").diameter = Len(Trace) + 1
        THEN PrintT(ToJson([verdict |-> "ACCEPT", lines |-> Len(Trace), specbad |-> TLCGet(2)]))
        ELSE PrintT(ToJson([verdict |-> "REJECT", line |-> bad, diameter |-> TLCGet("stats").diameter,
                            lines |-> Len(Trace), specbad |-> TLCGet(2)]))
=============================================================================
