------------------------------ MODULE TraceCache ------------------------------
(* Trace validation: events recorded from the real cachedRoutes (harness families "lru", "lruconc",  *)
(* and the router-level recorders) are checked against the actions of RuxCache.                      *)
(* Every step is deterministic given the logged arguments, so conformance is a boolean `ok` and the  *)
(* first rejected line is kept in a TLC register (reported by the POSTCONDITION).                    *)
EXTENDS RuxCache, TLC, Json, IOUtils

Trace == ndJsonDeserialize(IOEnv.TRACE)

VARIABLES l, ok
tvars == <<vars, l, ok>>

E == Trace[l]
KeysNow == KeysOf(list')
ValsNow == [i \in 1..Len(list') |-> list'[i].v]

TraceInit == /\ cap = 0 /\ lru = <<>> /\ list = <<>> /\ hmap = {} /\ last = [op |-> "init"]
             /\ l = 1 /\ ok = TRUE /\ TLCSet(1, 0)

Reset == /\ E.op = "reset"
         /\ cap' = E.cap /\ lru' = <<>> /\ list' = <<>> /\ hmap' = {} /\ last' = [op |-> "init"]
         /\ ok' = TRUE

TSet == /\ E.op = "set" /\ Set(E.k, E.v)
        /\ ok' = (E.res = last'.res /\ KeysNow = E.keys /\ ValsNow = E.vals /\ E.cap = cap)
TGet == /\ E.op = "get" /\ Get(E.k)
        /\ ok' = (E.hit = last'.hit /\ E.v = last'.v /\ KeysNow = E.keys /\ ValsNow = E.vals)
THas == /\ E.op = "has" /\ HasOp(E.k)
        /\ ok' = (E.hit = last'.hit /\ KeysNow = E.keys /\ ValsNow = E.vals)
TDel == /\ E.op = "del" /\ Del(E.k)
        /\ ok' = (E.res = last'.res /\ KeysNow = E.keys /\ ValsNow = E.vals)
TLen == /\ E.op = "len" /\ LenOp
        /\ ok' = (E.n = last'.n /\ KeysNow = E.keys)
\* hook events (no return values, values not distinguished): only the key order is logged
CSet == /\ E.op = "cset" /\ Set(E.k, 1) /\ ok' = (KeysNow = E.keys /\ E.cap = cap)
CGet == /\ E.op = "cget" /\ Get(E.k)    /\ ok' = (KeysNow = E.keys)
CDel == /\ E.op = "cdel" /\ Del(E.k)    /\ ok' = (KeysNow = E.keys)

TraceNext == /\ ok /\ l <= Len(Trace)
             /\ (Reset \/ TSet \/ TGet \/ THas \/ TDel \/ TLen \/ CSet \/ CGet \/ CDel)
             /\ l' = l + 1
             /\ (IF ok' THEN TRUE ELSE TLCSet(1, l))

\* the declarative side must keep up with the operational side on every recorded step as well
TraceRefines == list = lru
TraceBounded == Len(list) <= cap

Post == LET bad == TLCGet(1) IN
        IF bad = 0 /\ TLCGet("stats").diameter = Len(Trace) + 1
        THEN PrintT(ToJson([verdict |-> "ACCEPT", lines |-> Len(Trace)]))
        ELSE PrintT(ToJson([verdict |-> "REJECT", line |-> bad, diameter |-> TLCGet("stats").diameter, lines |-> Len(Trace)]))
=============================================================================
