--------------------------- MODULE TraceRouterCache ---------------------------
(* Trace validation for the caching router (C07, C14): the harness (family "rcacherec") builds random tables of 3..8    *)
(* freshly generated routes with random options and cache capacities 0..5, serves 100..200 requests drawn with         *)
(* repetition from a small request alphabet (so hits, misses and evictions occur) and records, per request, what      *)
(* was resolved and the cache keys in recency order.  Every request is replayed through the Request action of          *)
(* RuxRouterCache; TransparentA / FilledAfterDynamicA are evaluated on every step.  PoolDef (patterns and the path     *)
(* universe) is generated from the trace.                                                                              *)
EXTENDS RuxRouterCache, Json, IOUtils

Trace == ndJsonDeserialize(IOEnv.TRACE)
VARIABLES l, ok
E == Trace[l]

TraceInit == /\ IndexInit /\ opts = [hmna |-> FALSE, hfb |-> FALSE, icpt |-> <<>>] /\ todo = <<>>
             /\ cap = 0 /\ cache = <<>> /\ last = [m |-> "-", q |-> 0]
             /\ l = 1 /\ ok = TRUE /\ TLCSet(1, 0) /\ TLCSet(2, 0) /\ TLCSet(3, 0)

THdr   == E.op = "hdr" /\ UNCHANGED cvars /\ ok' = TRUE
TReset == /\ E.op = "reset"
          /\ tbl' = <<>> /\ stable' = {} /\ regular' = <<>> /\ irregular' = <<>>
          /\ opts' = [hmna |-> E.hmna, hfb |-> E.hfb, icpt |-> <<>>] /\ todo' = <<>>
          /\ cap' = E.cap /\ cache' = <<>> /\ last' = [m |-> "-", q |-> 0] /\ ok' = TRUE
TReg   == E.op = "reg" /\ Register(E.p, ToSet(E.ms)) /\ UNCHANGED <<opts, todo, cap, cache, last>> /\ ok' = TRUE
KeyText(k) == <<k[1], IF k[2] > 0 THEN PathSeq[k[2]] ELSE <<"?">> >>
TReq   == /\ E.op = "req" /\ Request(E.m, QOf(E.path))
          /\ LET r == last'.res IN
             /\ (IF TransparentA /\ FilledAfterDynamicA THEN TRUE ELSE TLCSet(2, l))      \* the specification itself: not a verdict about the code
             /\ LET resOK  == /\ r.kind = E.kind
                               /\ (r.kind = "route" => r.r = E.r)
                               /\ (r.kind = "notallowed" => r.allow = ToSet(E.allow))
                    keysOK == [i \in 1..Len(cache') |-> KeyText(cache'[i].k)] = E.keys IN
                /\ ok' = (resOK /\ keysOK)
                /\ (IF resOK /\ ~keysOK THEN TLCSet(3, l) ELSE TRUE)   \* what was resolved is right, the cache content is not (C14)

TraceNext == /\ ok /\ l <= Len(Trace)
             /\ (THdr \/ TReset \/ TReg \/ TReq)
             /\ l' = l + 1
             /\ (IF ok' THEN TRUE ELSE TLCSet(1, l))

Post == LET bad == TLCGet(1) IN
        IF bad = 0 /\ TLCGet("stats").diameter = Len(Trace) + 1
        THEN PrintT(ToJson([verdict |-> "ACCEPT", lines |-> Len(Trace), specbad |-> TLCGet(2)]))
        ELSE PrintT(ToJson([verdict |-> "REJECT", line |-> bad, diameter |-> TLCGet("stats").diameter,
                            lines |-> Len(Trace), specbad |-> TLCGet(2), keysonly |-> TLCGet(3)]))
=============================================================================
