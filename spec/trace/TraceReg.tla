------------------------------- MODULE TraceReg -------------------------------
(* Trace validation for registration programs (C12, C04): the harness (family "regrec") executes random long programs    *)
(* (<= 40 statements, nesting <= 5) on a real router and records every statement as it executes, the Path() of every     *)
(* registered route and - from one real request per route - the order in which the handlers were entered.  Statements   *)
(* are replayed through the actions of RuxReg; the invariants RoutesAgree / NoResidue are evaluated after every event.   *)
EXTENDS RuxReg, Json, IOUtils

Trace == ndJsonDeserialize(IOEnv.TRACE)
VARIABLES l, ok
E == Trace[l]

TraceInit == RegInit /\ l = 1 /\ ok = TRUE /\ TLCSet(1, 0)

TReset == /\ E.op = "reset" /\ prog' = <<>> /\ curPrefix' = <<>> /\ curMw' = <<>> /\ saved' = <<>> /\ global' = <<>> /\ routes' = <<>>
          /\ commonArr' = Common0 /\ curAlias' = 0 /\ ok' = TRUE
TEnter == E.op = "enter" /\ Enter(E.prefix, E.mw, E.common) /\ ok' = TRUE
TExit  == E.op = "exit" /\ Exit /\ ok' = TRUE
TUse   == E.op = "use" /\ Use(E.mw) /\ ok' = TRUE
TAdd   == E.op = "add" /\ Add(E.path, E.mw) /\ ok' = (routes'[Len(routes')].path = E.got)
TRUse  == E.op = "ruse" /\ RouteUse(E.route, E.mw) /\ ok' = TRUE
TReq   == E.op = "req" /\ UNCHANGED regvars /\ ok' = (E.chain = ChainOf(E.route) /\ E.nmw = Len(routes[E.route].mw))

TraceNext == /\ ok /\ l <= Len(Trace)
             /\ (TReset \/ TEnter \/ TExit \/ TUse \/ TAdd \/ TRUse \/ TReq)
             /\ l' = l + 1
             /\ (IF ok' THEN TRUE ELSE TLCSet(1, l))

Post == LET bad == TLCGet(1) IN
        IF bad = 0 /\ TLCGet("stats").diameter = Len(Trace) + 1
        THEN PrintT(ToJson([verdict |-> "ACCEPT", lines |-> Len(Trace)]))
        ELSE PrintT(ToJson([verdict |-> "REJECT", line |-> bad, diameter |-> TLCGet("stats").diameter, lines |-> Len(Trace)]))
=============================================================================
