------------------------------ MODULE TraceChain ------------------------------
(* Trace validation for the chain interpreter (C04, C05, C08, C09): the harness (family "chainrec") builds random chains *)
(* of 1..63 handlers with ARBITRARY scripts (any number of Next calls, aborts, status/write/flush ops, errors, panics)   *)
(* through real registration calls, serves one request and records the handler log, the calls received by the           *)
(* underlying writer and whether the panic escaped.  Each recorded request must equal the ideal dispatch of its chain.  *)
EXTENDS RuxChainFn, Json, IOUtils

Trace == ndJsonDeserialize(IOEnv.TRACE)
VARIABLES l, ok
E == Trace[l]
TraceInit == l = 1 /\ ok = TRUE /\ TLCSet(1, 0)
Opt(x) == IF x = << <<"none">> >> THEN None ELSE x
TraceNext == /\ ok /\ l <= Len(Trace)
             /\ LET d == IdealDispatch(ExpandChain(E.chain), Opt(E.onerror), Opt(E.hook)) IN
                ok' = /\ E.log = d.log
                      /\ E.escaped = d.escaped
                      /\ (~d.escaped => E.under = d.w.under)
             /\ l' = l + 1
             /\ (IF ok' THEN TRUE ELSE TLCSet(1, l))
Post == LET bad == TLCGet(1) IN
        IF bad = 0 /\ TLCGet("stats").diameter = Len(Trace) + 1
        THEN PrintT(ToJson([verdict |-> "ACCEPT", lines |-> Len(Trace)]))
        ELSE PrintT(ToJson([verdict |-> "REJECT", line |-> bad, diameter |-> TLCGet("stats").diameter, lines |-> Len(Trace)]))
=============================================================================
