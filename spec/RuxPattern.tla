------------------------------ MODULE RuxPattern ------------------------------
(***************************************************************************)
(* Meaning of rux route patterns (README "Path params", parse_match.go).   *)
(*                                                                         *)
(* All text is a sequence of one-character tokens.  A pattern is a         *)
(* sequence of levels <<L1, L2, L3>> standing for  L1[L2[L3]]  (optional   *)
(* parts are nested tails).  A level is a sequence of elements:            *)
(*    [t |-> "lit", c |-> char]       literal character ('.' is literal)   *)
(*    [t |-> "var", n |-> name, k |-> class]   {name} / {name:regex}       *)
(* Classes are a closed table of regexes whose meaning over the token      *)
(* alphabet is unambiguous:                                                *)
(*    any = [^/]+   dig = \d+   num = [1-9][0-9]*   word = \w+             *)
(*    (a variable NAMED num / all / any, or uid - a global variable the   *)
(*    application adds with SetGlobalVar - gets its class from its name  *)
(*    when the pattern gives no regex; an inline regex always wins)       *)
(*    all = .*      rest1 = .+      ab = (?:a|b)+   (note the ':' inside)  *)
(* Decomps(pat, path) is the SET of all ways the whole path decomposes     *)
(* along the pattern; the oracle never depends on regexp greediness.       *)
(***************************************************************************)
EXTENDS Integers, Sequences, FiniteSets, SequencesExt

L(c)    == [t |-> "lit", c |-> c]
V(n, k) == [t |-> "var", n |-> n, k |-> k]

Digits == {"0", "1", "2", "3", "4", "5", "6", "7", "8", "9"}
Lower  == {"a", "b", "c", "d", "e", "f", "g", "h", "i", "j", "k", "l", "m", "n", "o", "p", "q", "r", "s", "t", "u", "v", "w", "x", "y", "z"}
Upper  == {"A", "B", "C", "D", "E", "F", "G", "H", "I", "J", "K", "L", "M", "N", "O", "P", "Q", "R", "S", "T", "U", "V", "W", "X", "Y", "Z"}
WordCh == Digits \cup Lower \cup Upper \cup {"_"}          \* \w over ASCII

ClassOK(k, c, first) ==
  CASE k = "any"   -> c # "/"
    [] k = "dig"   -> c \in Digits
    [] k = "digb"  -> c \in Digits                                   \* the same set written with a counted repetition: \d{1,}
    [] k = "dign"  -> c \in Digits                                   \* (?P<d>\d)\d*  - the same language with a NAMED group inside; outside the
    [] k = "digc"  -> c \in Digits                                   \* (\d+)         - documented grammar: registration may refuse these
    [] k = "num"   -> IF first THEN c \in (Digits \ {"0"}) ELSE c \in Digits
    [] k = "word"  -> c \in WordCh
    [] k = "all"   -> TRUE
    [] k = "rest1" -> TRUE
    [] k = "ab"    -> c \in {"a", "b"}
    [] k = "ab1"   -> IF first THEN c \in {"a", "b"} ELSE c \in {"1", "b"}    \* regex (?:a|b)(?:(?:1|b)*): two top-level groups
MinLen(k)    == IF k = "all" THEN 0 ELSE 1
SpansSlash(k) == k \in {"all", "rest1"}

\* all end positions e such that path[j..e-1] is a value of class k
Ends(k, p, j) == { e \in (j + MinLen(k))..(Len(p) + 1) : \A x \in j..(e - 1) : ClassOK(k, p[x], x = j) }

\* MB: set of bindings (sequences of <<name, value>>) of the element list `toks` from position i against p from j
RECURSIVE MB(_, _, _, _)
MB(toks, i, p, j) ==
  IF i > Len(toks) THEN (IF j = Len(p) + 1 THEN {<<>>} ELSE {})
  ELSE LET tk == toks[i] IN
    IF tk.t = "lit"
    THEN IF j <= Len(p) /\ p[j] = tk.c THEN MB(toks, i + 1, p, j + 1) ELSE {}
    ELSE UNION { { << <<tk.n, SubSeq(p, j, e - 1)>> >> \o b : b \in MB(toks, i + 1, p, e) } : e \in Ends(tk.k, p, j) }

Flat(pat, nl)   == FlattenSeq(SubSeq(pat, 1, nl))
VarsOf(lv)      == SelectSeq(lv, LAMBDA e : e.t = "var")
NamesOf(lv)     == [i \in 1..Len(VarsOf(lv)) |-> VarsOf(lv)[i].n]
Names(pat)      == NamesOf(Flat(pat, Len(pat)))          \* in order of appearance
\* variables of absent optional levels are bound to the empty string
AbsentTail(pat, nl) == LET ns == NamesOf(FlattenSeq(SubSeq(pat, nl + 1, Len(pat))))
                       IN [i \in 1..Len(ns) |-> <<ns[i], <<>> >>]

Decomps(pat, p) == UNION { { b \o AbsentTail(pat, nl) : b \in MB(Flat(pat, nl), 1, p, 1) } : nl \in 1..Len(pat) }
Matches(pat, p) == Decomps(pat, p) # {}

\* the inverse direction: put values back (C02 "substituting back", C15 BuildURL)
ValueIn(b, n)   == LET i == CHOOSE i \in 1..Len(b) : b[i][1] = n IN b[i][2]
SubstLevel(lv, b) == FlattenSeq([i \in 1..Len(lv) |-> IF lv[i].t = "lit" THEN <<lv[i].c>> ELSE ValueIn(b, lv[i].n)])
\* levels whose variables are all empty AND that are trailing are treated as absent
Subst(pat, b, nl) == SubstLevel(Flat(pat, nl), b)

HasVar(lv)      == \E x \in 1..Len(lv) : lv[x].t = "var"
IsStatic(pat)   == Len(pat) = 1 /\ ~HasVar(pat[1])
TextOf(lv)      == [i \in 1..Len(lv) |-> lv[i].c]

\* a binding is well formed for pat: exactly the names, present values satisfy their class
ValueOK(k, v)   == Len(v) >= MinLen(k) /\ \A x \in 1..Len(v) : ClassOK(k, v[x], x = 1)

\* laws used as TLC assertions over the match matrix (C02, O1)
DecompSound(pat, p, D) ==      \* D = Decomps(pat, p), passed in so that a memoised matrix can be reused
  \A b \in D :
     /\ [i \in 1..Len(b) |-> b[i][1]] = Names(pat)
     /\ \E nl \in 1..Len(pat) :
          /\ Subst(pat, b, nl) = p
          /\ \A i \in 1..Len(VarsOf(Flat(pat, nl))) : ValueOK(VarsOf(Flat(pat, nl))[i].k, b[i][2])
          /\ \A i \in (Len(VarsOf(Flat(pat, nl))) + 1)..Len(b) : b[i][2] = <<>>
=============================================================================
