------------------------------- MODULE RuxChain -------------------------------
(***************************************************************************)
(* One request running its handler chain.  The scripts, the response       *)
(* writer as pure functions, the IDEAL machine and the ideal dispatch are  *)
(* defined in RuxChainFn (see the comments there); this module adds the    *)
(* CURSOR machine: Context.Next as written, with the int8 cursor, the      *)
(* sentinel abortIndex and wrap-around, and what TLC checks about it.      *)
(***************************************************************************)
EXTENDS RuxChainFn

-----------------------------------------------------------------------------
(* CURSOR machine: Context.Next as a step machine *)
VARIABLES chain, idx, stack, log, crash, ab
cursorvars == <<chain, idx, stack, log, crash, ab>>

S == Cast(Len(chain))                 \* s := int8(len(c.handlers))
Top == stack[Len(stack)]
Pop == SubSeq(stack, 1, Len(stack) - 1)
LFrame == [k |-> "L", catch |-> FALSE]
CatchFrame == [k |-> "L", catch |-> TRUE]        \* the Next() loop started by PanicsHandler, under its deferred recover
HFrame(h) == [k |-> "H", h |-> h, pc |-> 1]
Probe == idx >= AbortIdx              \* IsAborted()

CursorInit(c) == /\ chain = c /\ log = <<>> /\ crash = FALSE /\ ab = FALSE
                 /\ idx = (IF D_NextCreeps THEN Wrap(-1 + 1) ELSE -1)     \* ctx.Next() called by handleHTTPRequest
                 /\ stack = <<LFrame>>

\* for ; c.index < s; c.index++ { c.handlers[c.index](c) }        (as found)
\* for c.index < s-1 { c.index++; c.handlers[c.index](c) }        (repaired)
LoopHead ==
  /\ ~crash /\ stack # <<>> /\ Top.k = "L"
  /\ IF D_NextCreeps
     THEN IF idx < S
          THEN IF idx < 0 \/ idx + 1 > Len(chain)
               THEN crash' = TRUE /\ UNCHANGED <<idx, stack, log, chain, ab>>            \* index out of range
               ELSE stack' = Append(stack, HFrame(idx + 1)) /\ UNCHANGED <<idx, log, crash, chain, ab>>
          ELSE stack' = Pop /\ UNCHANGED <<idx, log, crash, chain, ab>>
     ELSE IF idx < S - 1
          THEN IF idx + 1 < 0 \/ idx + 2 > Len(chain)
               THEN crash' = TRUE /\ UNCHANGED <<idx, stack, log, chain, ab>>
               ELSE idx' = idx + 1 /\ stack' = Append(stack, HFrame(idx + 2)) /\ UNCHANGED <<log, crash, chain, ab>>
          ELSE stack' = Pop /\ UNCHANGED <<idx, log, crash, chain, ab>>

HStep ==
  /\ ~crash /\ stack # <<>> /\ Top.k = "H"
  /\ LET f == Top  ops == chain[f.h] IN
     IF f.pc > Len(ops)
     THEN \* the handler returns into the enclosing loop (as found: post statement c.index++)
          /\ stack' = Pop /\ idx' = (IF D_NextCreeps THEN Wrap(idx + 1) ELSE idx) /\ UNCHANGED <<log, crash, chain, ab>>
     ELSE LET op == ops[f.pc]
              adv == [stack EXCEPT ![Len(stack)].pc = f.pc + 1] IN
          CASE op[1] = "in"    -> log' = Append(log, <<"in", f.h, Probe>>) /\ stack' = adv /\ UNCHANGED <<idx, crash, chain, ab>>
            [] op[1] = "out"   -> log' = Append(log, <<"out", f.h, Probe>>) /\ stack' = adv /\ UNCHANGED <<idx, crash, chain, ab>>
            [] op[1] \in {"abort", "abortStatus"} -> idx' = AbortIdx /\ ab' = TRUE /\ stack' = adv /\ UNCHANGED <<log, crash, chain>>
            [] op[1] \in {"next", "nextdefer"} -> /\ idx' = (IF D_NextCreeps THEN Wrap(idx + 1) ELSE idx)
                                  /\ stack' = Append(adv, LFrame) /\ UNCHANGED <<log, crash, chain, ab>>
            [] op[1] = "catchnext" -> /\ idx' = (IF D_NextCreeps THEN Wrap(idx + 1) ELSE idx)
                                      /\ stack' = Append(adv, CatchFrame) /\ UNCHANGED <<log, crash, chain, ab>>
            [] op[1] = "panic" ->   \* unwind to the innermost recovering frame (or out of ServeHTTP); the cursor is not touched
                 LET cs == { i \in 1..Len(stack) : stack[i].k = "L" /\ stack[i].catch } IN
                 /\ stack' = IF cs = {} THEN <<>> ELSE SubSeq(stack, 1, (CHOOSE i \in cs : \A j \in cs : j <= i) - 1)
                 /\ UNCHANGED <<idx, log, crash, chain, ab>>
            [] OTHER           -> stack' = adv /\ UNCHANGED <<idx, log, crash, chain, ab>>

CursorNext == LoopHead \/ HStep
Done == stack = <<>>

\* ---- what TLC checks (C04 / C05) -------------------------------------------------------------
IdealLogOf(c) == IRunNext(c, St0).log
NoCrash     == ~crash
LogPrefix   == IsPrefix(log, IdealLogOf(chain))
LogComplete == Done => log = IdealLogOf(chain)
\* stated separately for readable counterexamples
AtMostOnce  == \A i, j \in 1..Len(log) : (i # j /\ log[i][1] = "in" /\ log[j][1] = "in") => log[i][2] # log[j][2]
InOrder     == \A i, j \in 1..Len(log) : (i < j /\ log[i][1] = "in" /\ log[j][1] = "in") => log[i][2] < log[j][2]
ProbeHonest == \A i \in 1..Len(log) : log[i][3] = IdealLogOf(chain)[i][3]
=============================================================================
