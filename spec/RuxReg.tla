-------------------------------- MODULE RuxReg --------------------------------
(***************************************************************************)
(* Registration as a state machine (router.go Group / appendGroupInfo,     *)
(* middleware.go Use / combineHandlers, route.go Route.Use).               *)
(* Properties C12 (groups add prefix and middleware to their own routes    *)
(* and leave no residue) and C04 (which handlers a request runs, in which  *)
(* order).                                                                 *)
(*                                                                         *)
(* A registration program is a flat sequence of statements                 *)
(*   [op |-> "enter", prefix |-> text, mw |-> n]   Group(prefix, fn, n middleware) begins                     *)
(*   [op |-> "exit"]                               ... its closure returns                                    *)
(*   [op |-> "use", mw |-> n]                      Router.Use(n middleware) at the current place              *)
(*   [op |-> "add", path |-> text, mw |-> n]       r.GET(path, main, n variadic middleware)                   *)
(*   [op |-> "ruse", route |-> k, mw |-> n]        Route.Use on the k-th registered route, later              *)
(* Handlers are identified by <<statement position, index>>; the main      *)
(* handler of the route added at position i is <<i, 0>>.                   *)
(*                                                                         *)
(* OPERATIONAL: the router's two mutable fields currentGroupPrefix /       *)
(* currentGroupHandlers with save-and-restore on the Go call stack.        *)
(* DECLARATIVE: lexical scoping read off the bracket structure of the      *)
(* program: the prefix and middleware of a route depend only on the groups *)
(* that enclose it and on the Use statements placed directly in those      *)
(* groups before it.                                                       *)
(***************************************************************************)
EXTENDS RuxPath, TLC

CONSTANTS D_NoRestoreMw,       \* deviation: Group does not restore the group middleware on return
          D_UseLeaksToParent,  \* deviation: Use inside a nested group is appended to the outermost group's list as well
          D_RouteMwBeforeGroup \* deviation: the route's own middleware is placed before the group middleware

VARIABLES prog,      \* the statements executed so far
          curPrefix, curMw,   \* Router.currentGroupPrefix / currentGroupHandlers
          saved,     \* prevPrefix / prevHandlers of the Group calls in progress (Go call stack)
          global,    \* Router.handlers
          routes     \* registered routes: [pos, path, mw]   (mw copied at registration: combineHandlers)
regvars == <<prog, curPrefix, curMw, saved, global, routes>>

Strict == FALSE
Ids(pos, n) == [i \in 1..n |-> <<pos, i>>]
Main(pos)   == <<pos, 0>>
Depth       == Len(saved)

RegInit == prog = <<>> /\ curPrefix = <<>> /\ curMw = <<>> /\ saved = <<>> /\ global = <<>> /\ routes = <<>>

\* ---- operational -------------------------------------------------------------------------------
Enter(prefix, n) ==
  LET pos == Len(prog) + 1 IN
  /\ prog' = Append(prog, [op |-> "enter", prefix |-> prefix, mw |-> n])
  /\ saved' = Append(saved, [prefix |-> curPrefix, mw |-> curMw])
  /\ curPrefix' = curPrefix \o FormatPath(Strict, prefix)
  /\ curMw' = IF n > 0 THEN (IF curMw # <<>> THEN curMw \o Ids(pos, n) ELSE Ids(pos, n)) ELSE curMw
  /\ UNCHANGED <<global, routes>>

Exit ==
  /\ saved # <<>>
  /\ prog' = Append(prog, [op |-> "exit"])
  /\ curPrefix' = saved[Len(saved)].prefix
  /\ curMw' = IF D_NoRestoreMw THEN curMw ELSE saved[Len(saved)].mw
  /\ saved' = SubSeq(saved, 1, Len(saved) - 1)
  /\ UNCHANGED <<global, routes>>

Use(n) ==
  LET pos == Len(prog) + 1 IN
  /\ n > 0
  /\ prog' = Append(prog, [op |-> "use", mw |-> n])
  /\ IF curPrefix # <<>>      \* `if r.currentGroupPrefix != ""`: use method in Group()
     THEN /\ curMw' = curMw \o Ids(pos, n)
          /\ saved' = IF D_UseLeaksToParent /\ saved # <<>>
                      THEN [saved EXCEPT ![Len(saved)].mw = @ \o Ids(pos, n)] ELSE saved
          /\ UNCHANGED global
     ELSE global' = global \o Ids(pos, n) /\ UNCHANGED <<curMw, saved>>
  /\ UNCHANGED <<curPrefix, routes>>

Add(path, n) ==
  LET pos  == Len(prog) + 1
      own  == Ids(pos, n)
      p1   == FormatPath(Strict, Simple(path))                                  \* NewRoute + appendGroupInfo
      full == IF curPrefix # <<>> THEN FormatPath(Strict, curPrefix \o p1) ELSE p1
      mw   == IF D_RouteMwBeforeGroup THEN own \o curMw ELSE curMw \o own       \* combineHandlers, then Route.Use(variadic)
  IN /\ prog' = Append(prog, [op |-> "add", path |-> path, mw |-> n])
     /\ routes' = Append(routes, [pos |-> pos, path |-> full, mw |-> mw])
     /\ UNCHANGED <<curPrefix, curMw, saved, global>>

RouteUse(k, n) ==
  LET pos == Len(prog) + 1 IN
  /\ k \in 1..Len(routes) /\ n > 0
  /\ prog' = Append(prog, [op |-> "ruse", route |-> k, mw |-> n])
  /\ routes' = [routes EXCEPT ![k].mw = @ \o Ids(pos, n)]
  /\ UNCHANGED <<curPrefix, curMw, saved, global>>

\* the handlers a request for route k runs, in order (dispatch.go: global ++ route.handlers ++ route.handler,
\* evaluated when the request arrives, so later top-level Use calls are included)
ChainOf(k) == global \o routes[k].mw \o <<Main(routes[k].pos)>>

\* ---- declarative: lexical scoping ---------------------------------------------------------------------
\* position of the "exit" matching the "enter" at j (0 if the group is still open)
RECURSIVE MatchExit(_, _, _)
MatchExit(j, i, depth) ==    \* scanning position i, depth = number of groups opened after j and still open
  IF i > Len(prog) THEN 0
  ELSE IF prog[i].op = "enter" THEN MatchExit(j, i + 1, depth + 1)
  ELSE IF prog[i].op = "exit" THEN (IF depth = 0 THEN i ELSE MatchExit(j, i + 1, depth - 1))
  ELSE MatchExit(j, i + 1, depth)
Encloses(j, i) == /\ j < i /\ prog[j].op = "enter"
                  /\ LET e == MatchExit(j, j + 1, 0) IN e = 0 \/ e > i
EnclosingOf(i) == { j \in 1..Len(prog) : Encloses(j, i) }          \* also defined for i = Len(prog) + 1
SortedSeq(S)   == SortSeq(SetToSeq(S), <)
InnermostOf(i) == IF EnclosingOf(i) = {} THEN 0 ELSE CHOOSE j \in EnclosingOf(i) : \A k \in EnclosingOf(i) : k <= j
\* middleware contributed by group j (or the top level, j = 0) to a statement at position i inside it:
\* the group's own middleware and the Use statements placed directly in it before i
UsesDirectlyIn(j, i) == SortedSeq({ u \in 1..(i - 1) : prog[u].op = "use" /\ InnermostOf(u) = j })
GroupMwAt(j, i) == (IF j = 0 THEN <<>> ELSE Ids(j, prog[j].mw))
                   \o FlattenSeq([x \in 1..Len(UsesDirectlyIn(j, i)) |-> Ids(UsesDirectlyIn(j, i)[x], prog[UsesDirectlyIn(j, i)[x]].mw)])
ExpGroupMw(i)  == LET enc == SortedSeq(EnclosingOf(i)) IN FlattenSeq([x \in 1..Len(enc) |-> GroupMwAt(enc[x], i)])
ExpPrefixes(i) == LET enc == SortedSeq(EnclosingOf(i)) IN [x \in 1..Len(enc) |-> prog[enc[x]].prefix]
ExpPath(i)     == RegPath(Strict, ExpPrefixes(i), prog[i].path)
RouteUses(k)   == SortedSeq({ u \in 1..Len(prog) : prog[u].op = "ruse" /\ prog[u].route = k })
ExpRouteMw(k)  == LET i == routes[k].pos IN
                  ExpGroupMw(i) \o Ids(i, prog[i].mw)
                  \o FlattenSeq([x \in 1..Len(RouteUses(k)) |-> Ids(RouteUses(k)[x], prog[RouteUses(k)[x]].mw)])
\* all top-level Use statements, wherever they stand relative to the route
ExpGlobal      == GroupMwAt(0, Len(prog) + 1)
ExpChain(k)    == ExpGlobal \o ExpRouteMw(k) \o <<Main(routes[k].pos)>>

\* ---- C12 / C04 ----------------------------------------------------------------------------------------
RoutesAgree == \A k \in 1..Len(routes) :
                  /\ routes[k].path = ExpPath(routes[k].pos)       \* reachable exactly under the concatenated prefixes
                  /\ routes[k].mw = ExpRouteMw(k)                  \* exactly the middleware in effect at registration
                  /\ ChainOf(k) = ExpChain(k)                      \* C04: global -> groups outer..inner -> route -> main
\* no residue: at every point the router's two fields are what the lexical position says
NoResidue   == /\ curMw = ExpGroupMw(Len(prog) + 1)
               /\ curPrefix = PrefixText(Strict, ExpPrefixes(Len(prog) + 1))
               /\ global = ExpGlobal
=============================================================================
