-------------------------------- MODULE RuxReg --------------------------------
(***************************************************************************)
(* Registration as a state machine (router.go Group / appendGroupInfo,     *)
(* middleware.go Use / combineHandlers, route.go Route.Use).               *)
(* Properties C12 (groups add prefix and middleware to their own routes    *)
(* and leave no residue) and C04 (which handlers a request runs, in which  *)
(* order).                                                                 *)
(*                                                                         *)
(* A registration program is a flat sequence of statements                 *)
(*   [op |-> "enter", prefix |-> text, mw |-> n]   Group(prefix, fn, n middleware) begins                     *)
(*   [op |-> "exit"]                               ... its closure returns                                    *)
(*   [op |-> "use", mw |-> n]                      Router.Use(n middleware) at the current place              *)
(*   [op |-> "add", path |-> text, mw |-> n]       r.GET(path, main, n variadic middleware)                   *)
(*   [op |-> "ruse", route |-> k, mw |-> n]        Route.Use on the k-th registered route, later              *)
(* Handlers are identified by <<statement position, index>>; the main      *)
(* handler of the route added at position i is <<i, 0>>.                   *)
(*                                                                         *)
(* OPERATIONAL: the router's two mutable fields currentGroupPrefix /       *)
(* currentGroupHandlers with save-and-restore on the Go call stack.        *)
(* DECLARATIVE: lexical scoping read off the bracket structure of the      *)
(* program: the prefix and middleware of a route depend only on the groups *)
(* that enclose it and on the Use statements placed directly in those      *)
(* groups before it.                                                       *)
(***************************************************************************)
EXTENDS RuxPath, TLC

CONSTANTS D_GroupAliasesCallerList, \* F22: Group keeps the caller's middleware slice; Use / nested Group append INTO it
          D_NoRestoreMw,       \* deviation: Group does not restore the group middleware on return
          D_UseLeaksToParent,  \* deviation: Use inside a nested group is appended to the outermost group's list as well
          D_RouteMwBeforeGroup \* deviation: the route's own middleware is placed before the group middleware

VARIABLES prog,      \* the statements executed so far
          curPrefix, curMw,   \* Router.currentGroupPrefix / currentGroupHandlers
          saved,     \* prevPrefix / prevHandlers of the Group calls in progress (Go call stack)
          global,    \* Router.handlers
          routes,    \* registered routes: [pos, path, mw]   (mw copied at registration: combineHandlers)
          commonArr, \* a middleware list OWNED BY THE APPLICATION (3 handlers <<0,1>>..<<0,3>>); groups may be given a prefix of it
          curAlias   \* 0, or L > 0: currentGroupHandlers is the Go slice commonArr[0:L] (same backing array, capacity 3)
regvars == <<prog, curPrefix, curMw, saved, global, routes, commonArr, curAlias>>

Strict == FALSE
Ids(pos, n) == [i \in 1..n |-> <<pos, i>>]
Main(pos)   == <<pos, 0>>
Depth       == Len(saved)

Common0 == << <<0, 1>>, <<0, 2>>, <<0, 3>> >>
RegInit == /\ prog = <<>> /\ curPrefix = <<>> /\ curMw = <<>> /\ saved = <<>> /\ global = <<>> /\ routes = <<>>
           /\ commonArr = Common0 /\ curAlias = 0

\* append(currentGroupHandlers, ids...): in place when the slice aliases the caller's list and has room, else a new array
AppendCur(ids) ==
  IF D_GroupAliasesCallerList /\ curAlias > 0 /\ curAlias + Len(ids) <= Len(commonArr)
  THEN /\ commonArr' = [i \in 1..Len(commonArr) |-> IF i > curAlias /\ i <= curAlias + Len(ids) THEN ids[i - curAlias] ELSE commonArr[i]]
       /\ curAlias' = curAlias + Len(ids)
       /\ curMw' = curMw \o ids
  ELSE /\ curMw' = curMw \o ids /\ curAlias' = 0 /\ UNCHANGED commonArr

\* ---- operational -------------------------------------------------------------------------------
\* fromCommon: the middleware arguments are commonArr[0:n] (as it is NOW), passed as `common[:n]...`
Enter(prefix, n, fromCommon) ==
  LET pos == Len(prog) + 1
      mws == IF fromCommon THEN SubSeq(commonArr, 1, n) ELSE Ids(pos, n) IN
  /\ prog' = Append(prog, [op |-> "enter", prefix |-> prefix, mw |-> n, common |-> fromCommon])
  /\ saved' = Append(saved, [prefix |-> curPrefix, mw |-> curMw, alias |-> curAlias])
  /\ curPrefix' = curPrefix \o FormatPath(Strict, prefix)
  /\ IF n = 0 THEN UNCHANGED <<curMw, curAlias, commonArr>>
     ELSE IF curMw # <<>> THEN AppendCur(mws)                          \* append(r.currentGroupHandlers, middles...)
     ELSE /\ curMw' = mws /\ UNCHANGED commonArr                       \* r.currentGroupHandlers = middles
          /\ curAlias' = IF D_GroupAliasesCallerList /\ fromCommon THEN n ELSE 0
  /\ UNCHANGED <<global, routes>>

Exit ==
  /\ saved # <<>>
  /\ prog' = Append(prog, [op |-> "exit"])
  /\ curPrefix' = saved[Len(saved)].prefix
  /\ curMw' = IF D_NoRestoreMw THEN curMw ELSE saved[Len(saved)].mw
  /\ curAlias' = saved[Len(saved)].alias
  /\ saved' = SubSeq(saved, 1, Len(saved) - 1)
  /\ UNCHANGED <<global, routes, commonArr>>

Use(n) ==
  LET pos == Len(prog) + 1 IN
  /\ n > 0
  /\ prog' = Append(prog, [op |-> "use", mw |-> n])
  /\ IF curPrefix # <<>>      \* `if r.currentGroupPrefix != ""`: use method in Group()
     THEN /\ AppendCur(Ids(pos, n))
          /\ saved' = IF D_UseLeaksToParent /\ saved # <<>>
                      THEN [saved EXCEPT ![Len(saved)].mw = @ \o Ids(pos, n)] ELSE saved
          /\ UNCHANGED global
     ELSE global' = global \o Ids(pos, n) /\ UNCHANGED <<curMw, saved, curAlias, commonArr>>
  /\ UNCHANGED <<curPrefix, routes>>

Add(path, n) ==
  LET pos  == Len(prog) + 1
      own  == Ids(pos, n)
      p1   == FormatPath(Strict, Simple(path))                                  \* NewRoute + appendGroupInfo
      full == IF curPrefix # <<>> THEN FormatPath(Strict, curPrefix \o p1) ELSE p1
      mw   == IF D_RouteMwBeforeGroup THEN own \o curMw ELSE curMw \o own       \* combineHandlers, then Route.Use(variadic)
  IN /\ prog' = Append(prog, [op |-> "add", path |-> path, mw |-> n])
     /\ routes' = Append(routes, [pos |-> pos, path |-> full, mw |-> mw])
     /\ UNCHANGED <<curPrefix, curMw, saved, global, commonArr, curAlias>>

\* Resource(base, controller, n middleware) with a controller type named "Regres" that implements Index only: the route
\* "/" inside Group(base + "regres", n middleware) - one statement, the group is gone when it returns
ResName == <<"r", "e", "g", "r", "e", "s">>
Res(base, n) ==
  LET pos  == Len(prog) + 1
      pre  == curPrefix \o FormatPath(Strict, base \o ResName)                  \* Group(basePath + resName)
      full == FormatPath(Strict, pre \o FormatPath(Strict, Simple(<<"/">>)))     \* AddNamed(name, "/", action)
  IN /\ prog' = Append(prog, [op |-> "res", base |-> base, mw |-> n])
     /\ routes' = Append(routes, [pos |-> pos, path |-> full, mw |-> curMw \o Ids(pos, n)])
     /\ UNCHANGED <<curPrefix, curMw, saved, global, commonArr, curAlias>>

RouteUse(k, n) ==
  LET pos == Len(prog) + 1 IN
  /\ k \in 1..Len(routes) /\ n > 0
  /\ prog' = Append(prog, [op |-> "ruse", route |-> k, mw |-> n])
  /\ routes' = [routes EXCEPT ![k].mw = @ \o Ids(pos, n)]
  /\ UNCHANGED <<curPrefix, curMw, saved, global, commonArr, curAlias>>

\* the handlers a request for route k runs, in order (dispatch.go: global ++ route.handlers ++ route.handler,
\* evaluated when the request arrives, so later top-level Use calls are included)
ChainOf(k) == global \o routes[k].mw \o <<Main(routes[k].pos)>>

\* ---- declarative: lexical scoping ---------------------------------------------------------------------
\* position of the "exit" matching the "enter" at j (0 if the group is still open)
RECURSIVE MatchExit(_, _, _)
MatchExit(j, i, depth) ==    \* scanning position i, depth = number of groups opened after j and still open
  IF i > Len(prog) THEN 0
  ELSE IF prog[i].op = "enter" THEN MatchExit(j, i + 1, depth + 1)
  ELSE IF prog[i].op = "exit" THEN (IF depth = 0 THEN i ELSE MatchExit(j, i + 1, depth - 1))
  ELSE MatchExit(j, i + 1, depth)
Encloses(j, i) == /\ j < i /\ prog[j].op = "enter"
                  /\ LET e == MatchExit(j, j + 1, 0) IN e = 0 \/ e > i
EnclosingOf(i) == { j \in 1..Len(prog) : Encloses(j, i) }          \* also defined for i = Len(prog) + 1
SortedSeq(S)   == SortSeq(SetToSeq(S), <)
InnermostOf(i) == IF EnclosingOf(i) = {} THEN 0 ELSE CHOOSE j \in EnclosingOf(i) : \A k \in EnclosingOf(i) : k <= j
\* middleware contributed by group j (or the top level, j = 0) to a statement at position i inside it:
\* the group's own middleware and the Use statements placed directly in it before i
UsesDirectlyIn(j, i) == SortedSeq({ u \in 1..(i - 1) : prog[u].op = "use" /\ InnermostOf(u) = j })
OwnMw(j) == IF prog[j].common THEN SubSeq(Common0, 1, prog[j].mw) ELSE Ids(j, prog[j].mw)   \* the list as the application wrote it
GroupMwAt(j, i) == (IF j = 0 THEN <<>> ELSE OwnMw(j))
                   \o FlattenSeq([x \in 1..Len(UsesDirectlyIn(j, i)) |-> Ids(UsesDirectlyIn(j, i)[x], prog[UsesDirectlyIn(j, i)[x]].mw)])
ExpGroupMw(i)  == LET enc == SortedSeq(EnclosingOf(i)) IN FlattenSeq([x \in 1..Len(enc) |-> GroupMwAt(enc[x], i)])
ExpPrefixes(i) == LET enc == SortedSeq(EnclosingOf(i)) IN [x \in 1..Len(enc) |-> prog[enc[x]].prefix]
ExpPath(i)     == IF prog[i].op = "res" THEN RegPath(Strict, Append(ExpPrefixes(i), prog[i].base \o ResName), <<"/">>)
                  ELSE RegPath(Strict, ExpPrefixes(i), prog[i].path)
RouteUses(k)   == SortedSeq({ u \in 1..Len(prog) : prog[u].op = "ruse" /\ prog[u].route = k })
ExpRouteMw(k)  == LET i == routes[k].pos IN
                  ExpGroupMw(i) \o Ids(i, prog[i].mw)
                  \o FlattenSeq([x \in 1..Len(RouteUses(k)) |-> Ids(RouteUses(k)[x], prog[RouteUses(k)[x]].mw)])
\* all top-level Use statements, wherever they stand relative to the route
ExpGlobal      == GroupMwAt(0, Len(prog) + 1)
ExpChain(k)    == ExpGlobal \o ExpRouteMw(k) \o <<Main(routes[k].pos)>>

\* ---- C12 / C04 ----------------------------------------------------------------------------------------
RoutesAgree == \A k \in 1..Len(routes) :
                  /\ routes[k].path = ExpPath(routes[k].pos)       \* reachable exactly under the concatenated prefixes
                  /\ routes[k].mw = ExpRouteMw(k)                  \* exactly the middleware in effect at registration
                  /\ ChainOf(k) = ExpChain(k)                      \* C04: global -> groups outer..inner -> route -> main
\* no residue: at every point the router's two fields are what the lexical position says
\* the application's own list is never modified by the router
CallerListIntact == commonArr = Common0
NoResidue   == /\ curMw = ExpGroupMw(Len(prog) + 1)
               /\ curPrefix = PrefixText(Strict, ExpPrefixes(Len(prog) + 1))
               /\ global = ExpGlobal
=============================================================================
