------------------------------ MODULE RuxResolve ------------------------------
(***************************************************************************)
(* What a request resolves to (parse_match.go QuickMatch /                 *)
(* findAllowedMethods, dispatch.go handleHTTPRequest), property C06.       *)
(*                                                                         *)
(* Operational: QuickMatch over the index of RuxIndex (Lookup).            *)
(* Declarative: the ordered list of the statement over Select:             *)
(*   direct  >  HEAD->GET  >  '/*' fallback (if enabled)  >                *)
(*   405 with allow = exactly the other methods that match (if enabled) >  *)
(*   404;   InterceptAll(p): every request is resolved as a request for p. *)
(***************************************************************************)
EXTENDS RuxIndex, RuxPath

CONSTANTS D_InterceptRaw,        \* F9: the intercept path is used as given, not normalised like a request path
          D_FallbackBeforeHead,  \* deviation: '/*' is consulted before the HEAD->GET fallback
          D_AllowProbeHeadFallback  \* deviation: the probe for allowed methods applies the HEAD->GET fallback (Allow gains HEAD)

VARIABLE opts    \* [hmna: BOOLEAN, hfb: BOOLEAN, icpt: raw token string or <<>>] and optionally strict: BOOLEAN (StrictLastSlash)
rvars == <<ivars, opts>>

Nine == <<"GET", "POST", "PUT", "PATCH", "DELETE", "OPTIONS", "HEAD", "CONNECT", "TRACE">>
NineSet == { Nine[i] : i \in 1..9 }
Star == <<"/", "*">>
QOf(p) == CHOOSE q \in 1..NPaths : PathSeq[q] = p
InUniverse(p) == \E q \in 1..NPaths : PathSeq[q] = p

NotFound == [kind |-> "notfound", r |-> 0, via |-> "none", allow |-> {}]
RouteRes(r, via) == [kind |-> "route", r |-> r, via |-> via, allow |-> {}]

\* ---- operational ------------------------------------------------------------------
AllowedOp(m, q) == { m2 \in NineSet \ {m} : \/ Lookup(m2, q) # 0
                                         \/ (D_AllowProbeHeadFallback /\ m2 = "HEAD" /\ Lookup("GET", q) # 0) }
StarRoutes(m)   == { e \in stable : e.m = m /\ e.path = Star }
StrictOpt       == IF "strict" \in DOMAIN opts THEN opts.strict ELSE FALSE
EffQ(q, raw)    == IF opts.icpt = <<>> THEN q
                   ELSE QOf(IF raw THEN opts.icpt ELSE Norm(StrictOpt, opts.icpt))   \* whenever the option was given

QuickMatch(m, q0) ==
  LET q    == EffQ(q0, D_InterceptRaw)
      d    == Lookup(m, q)
      head == IF m = "HEAD" THEN Lookup("GET", q) ELSE 0
      fb   == IF opts.hfb /\ StarRoutes(m) # {} THEN (CHOOSE e \in StarRoutes(m) : TRUE).r ELSE 0
      al   == IF opts.hmna THEN AllowedOp(m, q) ELSE {}
  IN IF d # 0 THEN RouteRes(d, "direct")
     ELSE IF D_FallbackBeforeHead /\ fb # 0 THEN RouteRes(fb, "fallback")
     ELSE IF head # 0 THEN RouteRes(head, "head")
     ELSE IF fb # 0 THEN RouteRes(fb, "fallback")
     ELSE IF al # {} THEN [kind |-> "notallowed", r |-> 0, via |-> "none", allow |-> al]
     ELSE NotFound

\* ---- declarative (C06) --------------------------------------------------------------
StarFor(m) == { r \in 1..Len(tbl) : IsStatic(PatOf(r)) /\ TextOf(PatOf(r)[1]) = Star /\ m \in tbl[r].ms }
Resolve(m, q0) ==
  LET q == EffQ(q0, FALSE) IN      \* "exactly as a request for p": p is normalised like any request path
  IF Select(m, q) # 0 THEN RouteRes(Select(m, q), "direct")
  ELSE IF m = "HEAD" /\ Select("GET", q) # 0 THEN RouteRes(Select("GET", q), "head")
  ELSE IF opts.hfb /\ StarFor(m) # {} THEN RouteRes(MinOf(StarFor(m)), "fallback")
  ELSE LET al == { m2 \in NineSet \ {m} : Select(m2, q) # 0 } IN
       IF opts.hmna /\ al # {} THEN [kind |-> "notallowed", r |-> 0, via |-> "none", allow |-> al]
       ELSE NotFound

\* request paths probed: the normalised members of the universe
ReqQs == { q \in 1..NPaths : NormalForm(PathSeq[q]) }
ResolveAgree == \A m \in ReqMethods : \A q \in ReqQs : QuickMatch(m, q) = Resolve(m, q)
\* with StrictLastSlash a trailing slash is significant: the strict normal forms are requested, each resolved as its
\* normal form under the router's own mode
ReqQsStrict == { q \in 1..NPaths : Norm(TRUE, PathSeq[q]) = PathSeq[q] }
RQ(q)       == QOf(Norm(StrictOpt, PathSeq[q]))
ResolveAgreeS == \A m \in ReqMethods : \A q \in ReqQsStrict : QuickMatch(m, RQ(q)) = Resolve(m, RQ(q))

\* compact code of a resolution (used by the exports): one integer per (method, path) cell
\*   0 notfound | r direct | 100+r via HEAD->GET | 200+r via fallback | 1000+bitmask(allowed methods in Nine order)
Pow2(n) == 2 ^ n
Mask(S) == LET bit(i) == IF Nine[i] \in S THEN Pow2(i - 1) ELSE 0
           IN bit(1) + bit(2) + bit(3) + bit(4) + bit(5) + bit(6) + bit(7) + bit(8) + bit(9)
Code(res) == CASE res.kind = "notfound" -> 0
               [] res.kind = "notallowed" -> 1000 + Mask(res.allow)
               [] res.via = "direct" -> res.r
               [] res.via = "head" -> 100 + res.r
               [] res.via = "fallback" -> 200 + res.r

\* default responses (dispatch.go): status, Allow header (sorted, ", "-joined), for the harness projection
Status(res, m) == CASE res.kind = "route" -> 200
                    [] res.kind = "notallowed" -> IF m = "OPTIONS" THEN 200 ELSE 405
                    [] OTHER -> 404
=============================================================================
