------------------------------- MODULE RuxDefs -------------------------------
(***************************************************************************)
(* Validity of route definitions (route.go goodInfo / goodRegexString /    *)
(* Route.Use, utils.go checkAndParseOptional, parse_match.go               *)
(* parseParamRoute, router.go WithOptions), property C13.                  *)
(*                                                                         *)
(* A path definition is a sequence of tokens over                          *)
(*   "/" "a" "x" "."   literal characters                                  *)
(*   "{" "}" ":"       variable syntax                                     *)
(*   "[" "]"           optional parts                                      *)
(*   "(" "(?:" ")"     capturing / non-capturing group                     *)
(*   "(?P<n>"          named group (capturing, although it starts "(?")    *)
(*   "\\d+" "*" "?"    regex fragments                                     *)
(* Verdict is three-valued:                                                *)
(*   "reject"  the statement lists the definition as invalid: registration *)
(*             must panic;                                                 *)
(*   "accept"  the definition is inside the documented grammar:            *)
(*             registration must not panic;                                *)
(*   "unspecified"  neither (odd text the statement is silent about).      *)
(* For EVERY definition that registration accepts - whatever the verdict - *)
(* lookups must never panic (totality; checked on the real code).          *)
(***************************************************************************)
EXTENDS Integers, Sequences, FiniteSets, SequencesExt, TLC

Lits   == {"/", "a", "x", "."}
Opens  == {"(", "(?:", "(?P<n>"}
Capturing == {"(", "(?P<n>"}
Count(d, S) == Cardinality({ i \in 1..Len(d) : d[i] \in S })
IdxOf(d, S) == { i \in 1..Len(d) : d[i] \in S }

\* ---- variables: spans "{" ... "}" ----------------------------------------------------------------
\* rux finds variables with the regex {[^/]+} : a '{', then anything but '/', up to the LAST '}' before the next '/'
Segments(d) == LET cuts == SortSeq(SetToSeq(IdxOf(d, {"/"}) \cup {0, Len(d) + 1}), <)
               IN [k \in 1..(Len(cuts) - 1) |-> [from |-> cuts[k] + 1, to |-> cuts[k + 1] - 1]]
\* well-formed variable use inside one segment: at most one "{", closed by a later "}", nothing but the body between
VarSpan(d, seg) == LET os == { i \in seg.from..seg.to : d[i] = "{" }
                       cs == { i \in seg.from..seg.to : d[i] = "}" } IN
                   IF os = {} /\ cs = {} THEN [kind |-> "none"]
                   ELSE IF Cardinality(os) = 1 /\ Cardinality(cs) = 1 /\ (CHOOSE o \in os : TRUE) < (CHOOSE c \in cs : TRUE)
                   THEN LET o == CHOOSE o \in os : TRUE  c == CHOOSE c \in cs : TRUE
                            \* the token "(?:" contains a ':' character: if it precedes the first ":" token the code splits
                            \* name and regex inside it - the structure is not what the tokens suggest
                            firstColon == IF \E i \in (o + 1)..(c - 1) : d[i] = ":" THEN CHOOSE i \in (o + 1)..(c - 1) : d[i] = ":" /\ \A j \in (o + 1)..(i - 1) : d[j] # ":" ELSE c
                        IN IF \E i \in (o + 1)..(firstColon - 1) : d[i] = "(?:" THEN [kind |-> "odd"]
                           ELSE [kind |-> "one", o |-> o, c |-> c]
                   ELSE [kind |-> "odd"]
Spans(d)   == { VarSpan(d, Segments(d)[k]) : k \in 1..Len(Segments(d)) }
OneSpans(d) == { s \in Spans(d) : s.kind = "one" }
Body(d, s) == SubSeq(d, s.o + 1, s.c - 1)
ColonAt(b) == IF \E i \in 1..Len(b) : b[i] = ":" THEN CHOOSE i \in 1..Len(b) : b[i] = ":" /\ \A j \in 1..(i - 1) : b[j] # ":" ELSE 0
RegexOf(b) == IF ColonAt(b) > 1 THEN SubSeq(b, ColonAt(b) + 1, Len(b)) ELSE <<>>     \* strings.IndexByte(nvStr, ':') > 0
InSpan(d, i) == \E s \in OneSpans(d) : s.o <= i /\ i <= s.c
CleanSpans(d) == \A s \in Spans(d) : s.kind # "odd"

\* ---- the conditions the statement lists ------------------------------------------------------------
IsDynamic(d) == Count(d, {"{", "["}) > 0                       \* isFixedPath is false: a regex is compiled
\* "an optional part that is not at the end": the closing brackets must all be at the end and match the openings
TrailClose(d) == LET nonClose == { i \in 1..Len(d) : d[i] # "]" } IN
                 IF nonClose = {} THEN Len(d) ELSE Len(d) - (CHOOSE i \in nonClose : \A j \in nonClose : j <= i)
\* (']' is only special when the path contains a '[': without one the code never rewrites brackets and ']' stays a literal)
HasOpen(d) == Count(d, {"["}) > 0
BadOptional(d) == IsDynamic(d) /\ HasOpen(d) /\ CleanSpans(d) /\ (\A i \in 1..Len(d) : d[i] \in {"[", "]"} => ~InSpan(d, i))
                  /\ TrailClose(d) # Count(SubSeq(d, 1, Len(d) - TrailClose(d)), {"["})
\* "a capturing group inside a variable regex": a '(' that does not start '(?' anywhere in the regex of a variable
CapturingInVar(d) == \E s \in OneSpans(d) : \E i \in 1..Len(RegexOf(Body(d, s))) : RegexOf(Body(d, s))[i] \in Capturing
\* "an uncompilable pattern": unbalanced groups in a definition that is compiled.  Only the text that reaches the
\* regex counts: what stands outside the variables plus the regex part of each variable ('[' becomes '(?:' and ']'
\* becomes ')?').  Definitions whose braces do not delimit variables cleanly get no verdict from this rule.
InRegexPart(d, i) == \E s \in OneSpans(d) : ColonAt(Body(d, s)) > 1 /\ s.o + ColonAt(Body(d, s)) < i /\ i < s.c
Counted(d)    == SelectSeq([i \in 1..Len(d) |-> IF ~InSpan(d, i) \/ InRegexPart(d, i) THEN d[i] ELSE "-"], LAMBDA t : t # "-")
RECURSIVE Depth(_, _, _)
Depth(t, i, n) == IF n < 0 THEN -1 ELSE IF i > Len(t) THEN n
                  ELSE Depth(t, i + 1, IF t[i] \in Opens \cup {"["} THEN n + 1 ELSE IF t[i] \in {")", "]"} THEN n - 1 ELSE n)
\* a ']' without any '[' is a literal: such definitions get no verdict from this rule
Unbalanced(d) == IsDynamic(d) /\ CleanSpans(d) /\ (HasOpen(d) \/ Count(d, {"]"}) = 0) /\ Depth(Counted(d), 1, 0) # 0
\* a capturing group outside every variable shifts the captured values against the variable names (F21)
CapturingOutsideVar(d) == IsDynamic(d) /\ CleanSpans(d) /\ \E i \in 1..Len(d) : d[i] \in Capturing /\ ~InSpan(d, i)

InvalidPath(d) == BadOptional(d) \/ CapturingInVar(d) \/ Unbalanced(d)

\* ---- the documented grammar (conservative: only what README documents) --------------------------------
Names == {"a", "x"}
GoodRegex(r) == r \in { <<"\\d+">>, <<"a">>, <<"x">>, <<"(?:", "\\d+", ")">>, <<"(?:", "a", ")">>, <<"a", "?">>, <<"x", "*">> }
GoodSpan(d, s) == LET b == Body(d, s) IN
                  \/ (Len(b) = 1 /\ b[1] \in Names)
                  \/ (Len(b) >= 3 /\ b[1] \in Names /\ b[2] = ":" /\ GoodRegex(SubSeq(b, 3, Len(b))))
SpanNames(d) == { Body(d, s)[1] : s \in OneSpans(d) }
WellFormedPath(d) ==
  /\ \A s \in Spans(d) : s.kind # "odd"
  /\ \A s \in OneSpans(d) : GoodSpan(d, s)
  /\ Cardinality(SpanNames(d)) = Cardinality(OneSpans(d))                         \* distinct names
  /\ \A i \in 1..Len(d) : InSpan(d, i) \/ d[i] \in Lits \cup {"[", "]"}           \* outside variables: literals and brackets only
  /\ ~BadOptional(d) /\ Count(d, {"]"}) = Count(d, {"["})
  /\ \A i \in 1..Len(d) : d[i] = "[" => (i > 1 /\ i < Len(d) /\ d[i + 1] \notin {"]", "["} /\ ~InSpan(d, i))   \* non-empty optional parts
  /\ \A i \in 1..Len(d) : d[i] = "]" => ~InSpan(d, i)

\* ---- methods, handler, handler count, options ---------------------------------------------------------
NineNames == {"GET", "POST", "PUT", "PATCH", "DELETE", "OPTIONS", "HEAD", "CONNECT", "TRACE"}
\* method-name strings as abstract cases: what they are after strings.TrimSpace + strings.ToUpper
MethodCases == [ GET |-> "GET", get |-> "GET", spaced |-> "POST", DEL |-> "DEL", GE |-> "GE", empty |-> "", FOO |-> "FOO",
                 list |-> "GET,POST", T |-> "T", ONNECT |-> "ONNECT" ]
MethodOK(name) == MethodCases[name] \in NineNames
HandlerLimit == 63
CountOK(nmw)  == nmw < HandlerLimit           \* Route.Use / appendGroupInfo: finalSize >= abortIndex panics

Verdict(d, method, handlerNil, nmw) ==
  IF handlerNil \/ ~MethodOK(method) \/ ~CountOK(nmw) \/ InvalidPath(d) THEN "reject"
  ELSE IF WellFormedPath(d) THEN "accept"
  ELSE "unspecified"

\* consistency of the verdict function itself (O1): the grammar and the invalidity conditions never overlap
Consistent(d) == ~(WellFormedPath(d) /\ (InvalidPath(d) \/ CapturingOutsideVar(d)))
=============================================================================
