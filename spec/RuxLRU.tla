------------------------------- MODULE RuxLRU -------------------------------
(* Pure operators of a bounded LRU map: a sequence of entries [k, v], most recently used first.          *)
(* Shared by RuxCache (the cache API as a state machine) and RuxRouterCache (the router using the cache). *)
EXTENDS Integers, Sequences, FiniteSets

(* declarative LRU map *)
Entry(k, v)   == [k |-> k, v |-> v]
KeysOf(l)     == [i \in 1..Len(l) |-> l[i].k]
KeySet(l)     == {l[i].k : i \in 1..Len(l)}
Has(l, k)     == \E i \in 1..Len(l) : l[i].k = k
Pos(l, k)     == CHOOSE i \in 1..Len(l) : l[i].k = k
ValOf(l, k)   == l[Pos(l, k)].v
Without(l, k) == SelectSeq(l, LAMBDA e : e.k # k)
Take(l, n)    == SubSeq(l, 1, IF Len(l) < n THEN Len(l) ELSE n)

LSet(l, c, k, v) == Take(<<Entry(k, v)>> \o Without(l, k), c)
LGet(l, k)       == IF Has(l, k) THEN <<l[Pos(l, k)]>> \o Without(l, k) ELSE l
LDel(l, k)       == Without(l, k)
=============================================================================
