-------------------------------- MODULE RuxURL --------------------------------
(***************************************************************************)
(* Building URLs for named routes (route.go ToURL / BuildURL, extends.go   *)
(* BuildRequestURL) and the route-name table, property C15.                *)
(*                                                                         *)
(* BuildURL substitutes values for the variables of the route path; the    *)
(* URL is serialised (percent-escaping), parsed back by net/http and its   *)
(* decoded path is routed.  The specification states the algebraic fact    *)
(* the user relies on: substituting values that satisfy the variable       *)
(* classes and decomposing the result along the same pattern gives back    *)
(* exactly those values - provided the built path is a fixed point of the  *)
(* request normalisation (C11) and the decomposition is unique.            *)
(***************************************************************************)
EXTENDS RuxPattern, RuxPath, TLC

\* value alphabets per class (token sequences; SP, EACUTE, PCT, QM, HASH are single characters ' ', 'e-acute', '%', '?', '#')
ValuesOf(k) ==
  CASE k = "any"   -> { <<"a">>, <<"a", "SP", "b">>, <<"EACUTE">>, <<"PCT", "2", "F">>, <<"a", "QM", "b">>, <<"HASH", "1">>, <<"a", ".", "b">>, <<"1">>,
                       <<"{", "y", "}">>, <<"{", "x", "}">> }     \* a value that reads like the placeholder of another variable
    [] k = "dig"   -> { <<"7">>, <<"4", "2">>, <<"0">> }
    [] k = "digb"  -> { <<"7">>, <<"4", "2">> }
    [] k = "num"   -> { <<"5">>, <<"1", "0">> }
    [] k = "word"  -> { <<"a", "_", "1">>, <<"x">> }
    [] k = "all"   -> { <<>>, <<"a">>, <<"a", "/", "b">>, <<"a", "SP", "QM">> }
    [] k = "rest1" -> { <<"a">>, <<"a", "/", "b", "/", "1">> }
    [] k = "ab"    -> { <<"a">>, <<"b", "a">> }
    [] k = "ab1"   -> { <<"a">>, <<"b", "1">>, <<"a", "b", "1">> }      \* (?:a|b)(?:(?:1|b)*): values that use the part behind the first group

\* all assignments of a pattern without optional parts: sequences of <<name, value>> in order of appearance
RECURSIVE AssignSeq(_, _)
AssignSeq(vs, i) == IF i > Len(vs) THEN { <<>> }
                    ELSE { << <<vs[i].n, v>> >> \o rest : v \in ValuesOf(vs[i].k), rest \in AssignSeq(vs, i + 1) }
Assignments(pat) == AssignSeq(VarsOf(pat[1]), 1)

Built(pat, asg)     == SubstLevel(pat[1], asg)
Routable(strict, pat, asg) == Norm(strict, Built(pat, asg)) = Built(pat, asg)   \* precondition: C11 does not alter the path
UniqueBack(pat, asg) == Decomps(pat, Built(pat, asg)) = {asg}
\* the fact: whenever the values satisfy the classes, the built path matches the pattern and one decomposition is asg
RoundTrip(pat, asg) == asg \in Decomps(pat, Built(pat, asg))

\* ---- the name table: last writer wins, whichever API ----------------------------------------------
\* ops: [api |-> "AddNamed"|"NewNamedRoute+AddRoute"|"NewNamedRoute+AttachTo"|"Add+NamedTo"|"Rename", name |-> n, route |-> id]
\* ("Rename" = NamedTo on an EXISTING route id: it gains the name; its earlier names keep pointing wherever they point)
NameTable(ops) == [n \in { ops[i].name : i \in 1..Len(ops) } |->
                     ops[CHOOSE i \in 1..Len(ops) : ops[i].name = n /\ \A j \in (i + 1)..Len(ops) : ops[j].name # n].route]
=============================================================================
