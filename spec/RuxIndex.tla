------------------------------- MODULE RuxIndex -------------------------------
(***************************************************************************)
(* The three-tier route index of gookit/rux (router.go appendRoute,        *)
(* parse_match.go parseParamRoute / match) as a state machine, and the     *)
(* declarative selection rule of property C01.                             *)
(*                                                                         *)
(*   stable    : method+path        -> route       (no variables/optional) *)
(*   regular   : method+first seg.  -> routes in registration order        *)
(*   irregular : method             -> routes in registration order        *)
(*                                                                         *)
(* Register(i, ms) mirrors appendRoute; Lookup(m, p) mirrors Router.match  *)
(* (without the cache, which is RuxRouterCache).  Select is the statement  *)
(* of C01: static beats dynamic; literal-first dynamic beats the rest;     *)
(* inside a group the earliest registered route wins.                      *)
(* TLC checks  Lookup = Select  for the table of every reachable state and *)
(* EVERY path of the bounded path universe (invariant Agree).              *)
(***************************************************************************)
EXTENDS RuxPattern, TLC, PoolDef
\* PoolDef defines  Pool (sequence of patterns the tables are built from), PoolText (the same as rux source
\* text) and Chars (path alphabet, a sequence).  It is generated per instance by vlib/patterns.py from
\* spec/pools/*.txt; spec/PoolDef.tla is the default instance.  They are definitions rather than CONSTANTS
\* on purpose: TLC does not memoise constant-level operators (Mat below) that depend on `<-` substituted
\* constants (measured: 39 s instead of 5 s start-up for the 48-pattern pool).

CONSTANTS MaxLen,          \* paths are "/" \o w with Len(w) <= MaxLen - 1
          MaxTable,        \* number of routes per table
          MethodSets,      \* method sets a route may be registered with
          ReqMethods,      \* request methods probed
          D_IrregularOverwrite,       \* F1: appendRoute resets the irregular list when it exists
          D_QuotedStart,              \* F2: start/first are cut from the path after '.' -> '\.' quoting
          D_VarlessOptionalIrregular  \* F3: optional-only patterns are always filed as irregular

NP == Len(Pool)

\* ---- path universe ---------------------------------------------------------
Words(n)  == UNION { [1..k -> 1..Len(Chars)] : k \in 0..n }
PathOf(w) == <<"/">> \o [i \in 1..Len(w) |-> Chars[w[i]]]
\* only normalised request paths: no trailing "/" (except root), no "//" at the start
NormalForm(p) == /\ p[1] = "/" /\ p[Len(p)] \notin {"SP", "TAB"}
                 /\ (Len(p) > 1 => p[Len(p)] # "/")
                 /\ (Len(p) > 1 => p[2] # "/")
\* ExtraPaths (PoolDef): additional, possibly longer or non-normalised, paths of an instance
PathSeq == SetToSeq({ p \in { PathOf(w) : w \in Words(MaxLen - 1) } : NormalForm(p) } \cup ExtraPaths)
NPaths  == Len(PathSeq)

\* memoised match matrix (constant level: evaluated once by TLC)
Mat == [i \in 1..NP |-> [q \in 1..NPaths |-> Decomps(Pool[i], PathSeq[q])]]
M(i, q) == Mat[i][q] # {}

\* ---- what parseParamRoute computes -------------------------------------------
RECURSIVE LitPrefix(_, _)
LitPrefix(lv, i) == IF i > Len(lv) \/ lv[i].t = "var" THEN <<>> ELSE <<lv[i].c>> \o LitPrefix(lv, i + 1)
AnyVar(pat)  == \E l \in 1..Len(pat) : HasVar(pat[l])
\* plain text before the first '{' or '[' : the literal prefix of level 1
Start0(pat)  == LitPrefix(pat[1], 1)
Quote(s)     == FlattenSeq([i \in 1..Len(s) |-> IF s[i] = "." THEN <<"\\", ".">> ELSE <<s[i]>>])
StartText(pat) == IF D_QuotedStart THEN Quote(Start0(pat)) ELSE Start0(pat)
MinOf(S)     == CHOOSE x \in S : \A y \in S : x <= y
SlashPos(s)  == { x \in 3..Len(s) : s[x] = "/" }          \* IndexByte(start[1:], '/') > 0
FirstOf(pat) == IF D_VarlessOptionalIrregular /\ ~AnyVar(pat) THEN <<>>
                ELSE LET s == StartText(pat) IN
                     IF Len(s) > 1 /\ SlashPos(s) # {} THEN SubSeq(s, 2, MinOf(SlashPos(s)) - 1) ELSE <<>>
StartOf(pat) == IF D_VarlessOptionalIrregular /\ ~AnyVar(pat) THEN <<>>
                ELSE LET s == StartText(pat)  f == FirstOf(pat) IN
                     IF Len(s) <= 1 THEN <<>> ELSE IF f # <<>> /\ Len(s) - Len(f) = 2 THEN <<>> ELSE s
IsPrefixOf(s, p) == Len(s) <= Len(p) /\ SubSeq(p, 1, Len(s)) = s

\* ---- the index as state ---------------------------------------------------------
VARIABLES tbl,        \* registration history: sequence of [p |-> pool index, ms |-> method set]
          stable,     \* set of [m, path, r]      (map method+path -> route, r = position in tbl)
          regular,    \* sequence of [m, first, r] in registration order   (map method+first -> list)
          irregular   \* sequence of [m, r] in registration order          (map method -> list)
ivars == <<tbl, stable, regular, irregular>>

IndexInit == tbl = <<>> /\ stable = {} /\ regular = <<>> /\ irregular = <<>>

\* two static routes with the same method and path are outside the quantifier of C01
StaticClash(i, ms) == /\ IsStatic(Pool[i])
                      /\ \E e \in stable : e.m \in ms /\ e.path = TextOf(Pool[i][1])

MethodList(ms) == SetToSeq(ms)
Register(i, ms) ==
  LET r == Len(tbl) + 1  pat == Pool[i] IN
  /\ ~StaticClash(i, ms)
  /\ tbl' = Append(tbl, [p |-> i, ms |-> ms])
  /\ IF IsStatic(pat)
     THEN /\ stable' = { e \in stable : ~(e.m \in ms /\ e.path = TextOf(pat[1])) }
                          \cup { [m |-> m, path |-> TextOf(pat[1]), r |-> r] : m \in ms }
          /\ UNCHANGED <<regular, irregular>>
     ELSE IF FirstOf(pat) # <<>>
     THEN /\ regular' = regular \o [x \in 1..Cardinality(ms) |-> [m |-> MethodList(ms)[x], first |-> FirstOf(pat), r |-> r]]
          /\ UNCHANGED <<stable, irregular>>
     ELSE /\ irregular' =
               (IF D_IrregularOverwrite
                THEN SelectSeq(irregular, LAMBDA e : e.m \notin ms)    \* `if has { rs = routes{} }`
                ELSE irregular) \o [x \in 1..Cardinality(ms) |-> [m |-> MethodList(ms)[x], r |-> r]]
          /\ UNCHANGED <<stable, regular>>

\* ---- Router.match (operational) -------------------------------------------------
ReqFirst(p) == LET S == { x \in 3..Len(p) : p[x] = "/" } IN
               IF S = {} THEN <<>> ELSE SubSeq(p, 2, MinOf(S) - 1)
PatOf(r)    == Pool[tbl[r].p]

\* MP(i, x) : does pool pattern i match the path denoted by x.  Two instances: x = index into the memoised
\* path universe (model checking), x = the path itself (trace validation).
LookupW(MP(_, _), P(_), m, x) ==
  LET p   == P(x)
      st  == { e \in stable : e.m = m /\ e.path = p }
      key == ReqFirst(p)
      rg  == { y \in 1..Len(regular) : /\ key # <<>> /\ regular[y].m = m /\ regular[y].first = key
                                       /\ IsPrefixOf(StartOf(PatOf(regular[y].r)), p)
                                       /\ MP(tbl[regular[y].r].p, x) }
      ir  == { y \in 1..Len(irregular) : irregular[y].m = m /\ MP(tbl[irregular[y].r].p, x) }
  IN IF st # {} THEN (CHOOSE e \in st : TRUE).r
     ELSE IF rg # {} THEN regular[MinOf(rg)].r
     ELSE IF ir # {} THEN irregular[MinOf(ir)].r
     ELSE 0

PathAt(q)      == PathSeq[q]
Lookup(m, q)   == LookupW(M, PathAt, m, q)
MatchesPool(i, p) == Matches(Pool[i], p)
Ident(p)       == p
LookupPath(m, p) == LookupW(MatchesPool, Ident, m, p)

\* ---- C01 (declarative) -------------------------------------------------------------
LiteralFirst(pat) == LET lv == pat[1] IN
   \E e \in 3..Len(lv) : /\ \A x \in 1..e : lv[x].t = "lit"
                         /\ lv[1].c = "/" /\ lv[e].c = "/" /\ \A x \in 2..(e - 1) : lv[x].c # "/"
Rank(pat)   == IF IsStatic(pat) THEN 0 ELSE IF LiteralFirst(pat) THEN 1 ELSE 2
CandsW(MP(_, _), m, x) == { r \in 1..Len(tbl) : m \in tbl[r].ms /\ MP(tbl[r].p, x) }
SelectW(MP(_, _), m, x) ==
  LET C == CandsW(MP, m, x) IN
  IF C = {} THEN 0
  ELSE LET rk == MinOf({ Rank(PatOf(r)) : r \in C }) IN MinOf({ r \in C : Rank(PatOf(r)) = rk })
Cands(m, q)      == CandsW(M, m, q)
Select(m, q)     == SelectW(M, m, q)
SelectPath(m, p) == SelectW(MatchesPool, m, p)

\* ---- Router.Routes() / IterateRoutes / String(): the views of the table -------------------------------
\* operational: walk the three tiers (one entry per method key a route was filed under);
\* declarative: every registered route, once per method it was registered for - nothing lost, nothing twice
ListingOp    == { <<e.r, e.m>> : e \in stable } \cup { <<regular[y].r, regular[y].m>> : y \in 1..Len(regular) }
                \cup { <<irregular[y].r, irregular[y].m>> : y \in 1..Len(irregular) }
ListingCount == Cardinality(stable) + Len(regular) + Len(irregular)
Listing      == UNION { { <<k, m>> : m \in tbl[k].ms } : k \in 1..Len(tbl) }
ListingOK    == ListingOp = Listing /\ ListingCount = Cardinality(Listing)

Agree    == \A m \in ReqMethods : \A q \in 1..NPaths : Lookup(m, q) = Select(m, q)
\* the clauses of the statement, separately (implied by Agree, kept for readable counterexamples)
Sound    == \A m \in ReqMethods : \A q \in 1..NPaths :
               Lookup(m, q) # 0 => (m \in tbl[Lookup(m, q)].ms /\ M(tbl[Lookup(m, q)].p, q))
Complete == \A m \in ReqMethods : \A q \in 1..NPaths : Lookup(m, q) = 0 => Cands(m, q) = {}
StaticWins == \A m \in ReqMethods : \A q \in 1..NPaths :
               (\E r \in Cands(m, q) : IsStatic(PatOf(r))) => IsStatic(PatOf(Lookup(m, q)))
=============================================================================
