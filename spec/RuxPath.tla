------------------------------- MODULE RuxPath -------------------------------
(***************************************************************************)
(* Path normalisation of gookit/rux (router.go formatPath, utils.go        *)
(* simpleFmtPath, dispatch.go URL.Path / EscapedPath), property C11.       *)
(*                                                                         *)
(* Text = sequence of one-character tokens.  White-space tokens: "SP",     *)
(* "TAB".  Declarative: Norm (total).  Operational: FormatPath follows     *)
(* Router.formatPath statement by statement INCLUDING its partiality: an   *)
(* out-of-range index is the value Panic.                                  *)
(***************************************************************************)
EXTENDS Integers, Sequences, FiniteSets, SequencesExt

CONSTANT D_EmptyCheckBeforeTrim   \* F12: `if path == ""` is tested before strings.TrimSpace, so " " indexes path[-1]

WS    == {"SP", "TAB", "NBSP", "VT"}      \* strings.TrimSpace: Unicode white space, eg U+00A0 and \v, not only blanks
Panic == <<"<PANIC>">>
Root  == <<"/">>

RECURSIVE StripL(_, _), StripR(_, _)
StripL(s, C) == IF s # <<>> /\ s[1] \in C THEN StripL(Tail(s), C) ELSE s
StripR(s, C) == IF s # <<>> /\ s[Len(s)] \in C THEN StripR(SubSeq(s, 1, Len(s) - 1), C) ELSE s
Trim(s)      == StripL(StripR(s, WS), WS)

\* ---- declarative -------------------------------------------------------------
\* surrounding white space is ignored, the leading slash is repaired, and - unless strict -
\* trailing slashes are insignificant
Norm(strict, s) == LET t == Trim(s)
                       u == IF strict THEN t ELSE StripR(t, {"/"})
                   IN  Root \o StripL(u, {"/"})

\* NewRoute pre-normalises with simpleFmtPath
Simple(s) == Root \o StripL(Trim(s), {"/"})

\* what Route.Path() must be for a route registered as p inside groups with the given prefixes (outermost first)
RECURSIVE PrefixText(_, _)
PrefixText(strict, ps) == IF ps = <<>> THEN <<>> ELSE Norm(strict, Head(ps)) \o PrefixText(strict, Tail(ps))
RegPath(strict, prefixes, p) ==
   LET own == Norm(strict, Simple(p))
   IN  IF prefixes = <<>> THEN own ELSE Norm(strict, PrefixText(strict, prefixes) \o own)
ReqPath(strict, s) == Norm(strict, s)

\* ---- operational: Router.formatPath ---------------------------------------------
FormatPath(strict, path0) ==
  LET early(p) == p = <<>> \/ p = Root IN
  IF D_EmptyCheckBeforeTrim /\ early(path0) THEN Root
  ELSE LET p1 == Trim(path0) IN                                  \* path = strings.TrimSpace(path)
       IF ~D_EmptyCheckBeforeTrim /\ early(p1) THEN Root
       ELSE IF ~strict /\ p1 = <<>> THEN Panic                   \* path[len(path)-1] with len(path) = 0
       ELSE LET p2 == IF ~strict /\ p1[Len(p1)] = "/" THEN StripR(p1, {"/"}) ELSE p1 IN
            IF early(p2) THEN Root
            ELSE IF p2[1] # "/" THEN Root \o p2                  \* "home" -> "/home"
            ELSE IF Len(p2) < 2 THEN Panic                       \* path[1]: unreachable, p2 # "/"
            ELSE IF p2[2] = "/" THEN Root \o StripL(p2, {"/"})   \* "//home" -> "/home"
            ELSE p2

\* ---- URL forms -----------------------------------------------------------------------
\* a raw URL path is a sequence of URL tokens: plain characters or percent escapes
Esc == [ e2F |-> [raw |-> <<"%", "2", "F">>, dec |-> "/"],
         e20 |-> [raw |-> <<"%", "2", "0">>, dec |-> "SP"],
         e61 |-> [raw |-> <<"%", "6", "1">>, dec |-> "a"] ]
IsEsc(t)    == t \in DOMAIN Esc
RawOf(url)  == FlattenSeq([i \in 1..Len(url) |-> IF IsEsc(url[i]) THEN Esc[url[i]].raw ELSE <<url[i]>>])
DecOf(url)  == [i \in 1..Len(url) |-> IF IsEsc(url[i]) THEN Esc[url[i]].dec ELSE url[i]]
\* the text the router matches: the decoded URL path, or the escaped one with UseEncodedPath
Seen(useEncoded, url) == IF useEncoded THEN RawOf(url) ELSE DecOf(url)

\* ---- laws (checked for every string of the bound) ---------------------------------------
Law_Total(strict, s)      == FormatPath(strict, s) # Panic
Law_Refines(strict, s)    == FormatPath(strict, s) = Norm(strict, s)
Law_LeadSlash(strict, s)  == Norm(strict, s)[1] = "/" /\ (Len(Norm(strict, s)) > 1 => Norm(strict, s)[2] # "/")
Law_SurroundWS(strict, s) == \A w \in WS : Norm(strict, <<w>> \o s) = Norm(strict, s) /\ Norm(strict, s \o <<w>>) = Norm(strict, s)
Law_LeadRepair(strict, s) == Trim(s) = s => Norm(strict, <<"/">> \o s) = Norm(strict, s)
Law_TrailSlash(s)         == (Trim(s) = s /\ StripR(s, {"/"}) = Trim(StripR(s, {"/"})))
                                => /\ Norm(FALSE, s \o <<"/">>) = Norm(FALSE, s)
                                   /\ LET n == Norm(FALSE, s) IN n = Root \/ n[Len(n)] # "/"
Law_Strict(s)             == (Trim(s) = s /\ s # <<>> /\ s[Len(s)] \notin ({"/"} \cup WS) /\ s[1] \notin WS)
                                => Norm(TRUE, s \o <<"/">>) # Norm(TRUE, s)
Law_SimpleNoop(strict, s) == Norm(strict, Simple(s)) = Norm(strict, s)
Laws(s) == /\ \A strict \in BOOLEAN : /\ Law_Total(strict, s) /\ Law_Refines(strict, s) /\ Law_LeadSlash(strict, s)
                                      /\ Law_SurroundWS(strict, s) /\ Law_LeadRepair(strict, s) /\ Law_SimpleNoop(strict, s)
           /\ Law_TrailSlash(s) /\ Law_Strict(s)
=============================================================================
