------------------------------- MODULE MC_Pool -------------------------------
(* Complete graph of pool residues; one JSON line per transition = a request history whose last request must observe a *)
(* pristine context.                                                                                                   *)
EXTENDS RuxPool, Json
CONSTANTS MaxHist, MaxMut
VARIABLE hist
MCInit == Init /\ hist = <<>>
MCNext == /\ Len(hist) < MaxHist
          /\ \E k \in Kinds, m \in SUBSET Mutations :
                 /\ Cardinality(m) <= MaxMut \/ m = Mutations
                 /\ Request(k, m) /\ hist' = Append(hist, [kind |-> k, muts |-> m])
mcvars == <<pvars, hist>>
MCPristine == [][PristineA]_mcvars
View == <<pool, Len(hist)>>
Emit == PrintT(ToJson([h |-> hist', expect |-> Pristine(last'.kind)]))
=============================================================================
