------------------------------- MODULE MC_Cache -------------------------------
(* Model-checking instance of RuxCache with per-edge export for replay on cachedRoutes. *)
EXTENDS RuxCache, TLC, Json

VARIABLE hist          \* one path to the current state: sequence of [op, args, predicted observation]
mcvars == <<vars, hist>>

Obs == [last |-> last', keys |-> KeysOf(lru'), vals |-> [i \in 1..Len(lru') |-> lru'[i].v]]
MCInit == Init /\ hist = <<>>
MCNext == Next /\ hist' = Append(hist, Obs)
View   == <<cap, lru, list, hmap>>       \* `last` and `hist` are outputs only
Emit   == PrintT(ToJson([cap |-> cap, h |-> hist']))
MCSpec == MCInit /\ [][MCNext]_mcvars
MCLaws == [][Laws]_mcvars
=============================================================================
