------------------------------- MODULE MC_Render -------------------------------
(* Every helper x status x preset x value class, and every Accept list of <= 3 entries. *)
EXTENDS RuxRender, Json
VARIABLE c
Statuses == {200, 201, 204, 301, 302, 303, 307, 308, 400, 404, 500}
RedirectCodes == {301, 302, 303, 307, 308}
AcceptEntries == {"application/json", "application/xml", "text/xml", "text/plain", "image/png", "application/json;q=0.9", "*/*"}
Strip(e) == IF e = "application/json;q=0.9" THEN "application/json" ELSE e
Lists == UNION { [1..n -> AcceptEntries] : n \in 0..3 }
Init == \/ \E h \in Helpers, s \in Statuses, p \in BOOLEAN, v \in VClasses :
             /\ Applicable(h, v) /\ (h \in {"Redirect"} <=> s \in RedirectCodes) /\ (h = "HTTPError" => s >= 400) /\ (s = 204 => h = "NoContent" \/ ~TakesStatus(h))
             /\ c = [t |-> "helper", h |-> h, status |-> s, preset |-> p, v |-> v]
        \/ \E l \in Lists : c = [t |-> "accept", l |-> l]
Next == FALSE /\ c' = c
RenderOK == /\ c.t = "accept" => NegotiateOp([i \in 1..Len(c.l) |-> Strip(c.l[i])]) = Negotiate([i \in 1..Len(c.l) |-> Strip(c.l[i])])
            /\ c.t = "helper" => LET p == Predict(c.h, c.status, c.preset, c.v) IN
                                 /\ (c.preset /\ KeepsPreset(c.h) => p.ctype = "preset/type")
                                 /\ (TakesStatus(c.h) /\ c.h # "NoContent" => p.status = c.status)
Emit == PrintT(ToJson(IF c.t = "helper" THEN c @@ [predict |-> Predict(c.h, c.status, c.preset, c.v)]
                      ELSE [t |-> "accept", l |-> c.l, pick |-> Negotiate([i \in 1..Len(c.l) |-> Strip(c.l[i])])]))
=============================================================================
