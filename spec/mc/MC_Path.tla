------------------------------- MODULE MC_Path -------------------------------
(* Every token string of length <= MaxLen: the laws of RuxPath hold; per string one JSON line with the predicted *)
(* Route.Path() (alone and under every group prefix of length <= MaxPre) and the set of request strings that     *)
(* reach a route registered under it (both StrictLastSlash settings).  URL instance: raw URLs with escapes.      *)
EXTENDS RuxPath, TLC, Json

CONSTANTS Alphabet, MaxLen, MaxPre, UrlAlphabet, MaxUrl, Mode   \* Mode = "text" | "url"

VARIABLE s
Init == s = <<>>
Next == \/ Mode = "text" /\ Len(s) < MaxLen /\ \E c \in Alphabet : s' = Append(s, c)
        \/ Mode = "url" /\ Len(s) < MaxUrl /\ \E c \in UrlAlphabet : s' = Append(s, c)

Strs(A, n) == UNION { [1..k -> A] : k \in 0..n }
AllText == Strs(Alphabet, MaxLen)
Pre     == Strs(Alphabet, MaxPre)
B(x)    == IF x THEN "T" ELSE "F"

LawsHold == Mode = "text" => Laws(s)

\* text line: s as registered path P (with prefixes) and as the key of the reach relation
TextLine ==
  [p   |-> s,
   reg |-> [st \in {"T", "F"} |-> RegPath(st = "T", <<>>, s)],
   grp |-> [st \in {"T", "F"} |-> SetToSeq({ <<g, RegPath(st = "T", <<g>>, s)>> : g \in Pre })],
   grp2 |-> [st \in {"T", "F"} |-> SetToSeq({ <<g, h, RegPath(st = "T", <<g, h>>, s)>> : g \in Pre, h \in Pre })],
   req |-> [st \in {"T", "F"} |-> ReqPath(st = "T", s)]]
\* url line: what the router must see and normalise for the raw URL s
UrlLine ==
  [url |-> RawOf(s), wellformed |-> (s # <<>> /\ s[1] = "/"),
   seen |-> [enc \in {"T", "F"} |-> [st \in {"T", "F"} |-> ReqPath(st = "T", Seen(enc = "T", s))]]]
Emit == PrintT(ToJson(IF Mode = "text" THEN TextLine ELSE UrlLine))
\* O1 for the reach clause: registration and lookup use the same function, so "reached" is equality of normal forms;
\* the operational side is the stable-route map keyed by method+FormatPath.
ReachRefines == Mode = "text" => \A strict \in BOOLEAN : \A q \in Strs(Alphabet, MaxPre) :
                  (FormatPath(strict, Simple(s)) = FormatPath(strict, q)) <=> (RegPath(strict, <<>>, s) = ReqPath(strict, q))
=============================================================================
