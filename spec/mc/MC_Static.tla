------------------------------- MODULE MC_Static -------------------------------
(* Every raw request path of <= MaxSegs segments: confinement of the modelled pipeline; cases for the real handlers. *)
EXTENDS RuxStatic, Json
CONSTANTS MaxSegs, SegAlphabet
VARIABLE raw
Init == raw = <<>>
Next == Len(raw) < MaxSegs /\ \E s \in SegAlphabet : raw' = Append(raw, s)
ExtSets == { {"css"}, {"css", "js"} }
StaticOK == /\ Confined(ServedDir(raw)) /\ NeverAbove(raw)
            /\ \A e \in ExtSets : Confined(ServedFiles(e, raw)) /\ ExtRule(e, raw)
Emit == PrintT(ToJson([raw |-> raw, dir |-> ServedDir(raw),
                       files |-> [css |-> ServedFiles({"css"}, raw), cssjs |-> ServedFiles({"css", "js"}, raw)]]))
=============================================================================
