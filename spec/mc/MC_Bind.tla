-------------------------------- MODULE MC_Bind --------------------------------
(* The source table over 9 methods x 9 media types x with/without parameters; every value of the representative struct. *)
EXTENDS RuxBind, Json

VARIABLE c
Methods9 == {"GET", "POST", "PUT", "PATCH", "DELETE", "HEAD", "OPTIONS", "CONNECT", "TRACE"}
Init == \/ \E m \in Methods9, md \in Media, p \in BOOLEAN : c = [t |-> "source", method |-> m, media |-> md, params |-> p]
        \/ \E v \in Values : c = [t |-> "value", v |-> v]
Next == FALSE /\ c' = c
TableOK == c.t = "source" => /\ SourceOp(c.method, c.media) = SourceDecl(c.method, c.media)
                              /\ \A wf \in BOOLEAN, va \in BOOLEAN, on \in BOOLEAN : SuccessImpliesValid(SourceDecl(c.method, c.media), wf, va, on)
Emit == PrintT(ToJson(IF c.t = "source"
                      THEN [t |-> "source", method |-> c.method, media |-> c.media, params |-> c.params, source |-> SourceDecl(c.method, c.media)]
                      ELSE [t |-> "value", v |-> c.v, valid |-> Valid(c.v)]))
=============================================================================
