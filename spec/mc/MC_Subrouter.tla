----------------------------- MODULE MC_Subrouter -----------------------------
(* A router mounted inside a handler of another router (rux.WrapHTTPHandler(api)): the outer chain is  G ++ <<mount>>,   *)
(* the mount handler may set a status / write before it hands the request to the mounted router, whose chain is `inner`. *)
(* The mounted router serves on a fresh context of its own; its lazy writer sits on top of the outer lazy writer.         *)
(* OneCommit must hold for the underlying writer over the whole request.  One JSON line per case (kind "subrouter").     *)
EXTENDS RuxChainFn, Json

CONSTANTS MaxG, MaxInner, Scripts
VARIABLES c
Lib == [ R  |-> << <<"in">>, <<"out">> >>,
         N  |-> << <<"in">>, <<"next">>, <<"out">> >>,
         A  |-> << <<"in">>, <<"abort">>, <<"out">> >>,
         AS |-> << <<"in">>, <<"abortStatus", 403>>, <<"out">> >>,
         S  |-> << <<"in">>, <<"status", 202>>, <<"next">>, <<"out">> >>,
         W  |-> << <<"in">>, <<"write", 2, "full">>, <<"out">> >> ]
Pre == [ none |-> <<>>, status |-> << <<"status", 404>> >>, write |-> << <<"status", 201>>, <<"write", 3, "full">> >> ]
Seqs(n) == UNION { [1..k -> Scripts] : k \in 0..n }
Init == \E g \in Seqs(MaxG), inner \in Seqs(MaxInner) \ {<<>>}, p \in DOMAIN Pre : c = [g |-> g, inner |-> inner, pre |-> p]
Next == FALSE /\ c' = c

G == [i \in 1..Len(c.g) |-> Lib[c.g[i]]]
Inner == [i \in 1..Len(c.inner) |-> Lib[c.inner[i]]]
Mount == << <<"in">> >> \o Pre[c.pre] \o << <<"subrouter", Inner>>, <<"out">> >>
Chain == G \o <<Mount>>
D == IdealDispatch(Chain, None, None)
SubrouterOK == OneCommit(D.w, D.wops)
Emit == PrintT(ToJson([kind |-> "subrouter", chain |-> Chain, n |-> Len(Chain), log |-> D.log, under |-> D.w.under,
                       escaped |-> FALSE, hooked |-> FALSE, checkw |-> TRUE]))
=============================================================================
