----------------------------- MODULE MC_Redispatch -----------------------------
(* Re-dispatch: the main handler of one route rewrites the request path and calls Router.HandleContext(c).  The outer  *)
(* chain is  G ++ <<redispatcher>>, the nested dispatch runs  G ++ inner  on the same context and writer.  Every       *)
(* combination of global scripts, writer ops before the re-dispatch and inner chains; OneCommit must hold over the    *)
(* whole request.  One JSON line per case for the real router (family "chain", kind "redispatch").                    *)
EXTENDS RuxChainFn, Json

CONSTANTS MaxG, MaxInner, Scripts
VARIABLES c
Lib == [ R  |-> << <<"in">>, <<"out">> >>,
         N  |-> << <<"in">>, <<"next">>, <<"out">> >>,
         A  |-> << <<"in">>, <<"abort">>, <<"out">> >>,
         AS |-> << <<"in">>, <<"abortStatus", 403>>, <<"out">> >>,
         W  |-> << <<"in">>, <<"write", 2, "full">>, <<"out">> >>,
         P  |-> << <<"in">>, <<"panic">> >> ]
\* (handlers that record errors are left out: OnError then runs at the end of the nested AND of the outer dispatch)
Pre == [ none |-> <<>>, status |-> << <<"status", 404>> >>, write |-> << <<"status", 202>>, <<"write", 3, "full">> >> ]
Seqs(n) == UNION { [1..k -> Scripts] : k \in 0..n }
\* tail = 1: the re-dispatcher is a MIDDLEWARE of its route, the route's main handler comes after it in the outer chain and
\* is never started (the cursor left behind by the nested dispatch is past it - the nested chain is at least as long)
\* hook: the OnPanic hook of the router that serves the nested dispatch ("none": no hook - then no script panics);
\* other: the nested dispatch is served by ANOTHER router (B.HandleContext(c) from a handler of A) with the same global
\* middleware and B's own hook; A's hook must stay out of it
\* a hook that answers with a status only: the recover path of the NESTED dispatch commits it, whatever the calling handler
\* does with the status afterwards (Post)
HookOf(h) == CASE h = "none" -> None
               [] h = "status" -> << <<"in">>, <<"status", 500>>, <<"write", 1, "full">> >>
               [] h = "statusonly" -> << <<"in">>, <<"status", 503>> >>
Post == [ none |-> <<>>, status |-> << <<"status", 204>> >> ]
Init == \E g \in Seqs(MaxG), inner \in Seqs(MaxInner) \ {<<>>}, p \in DOMAIN Pre, t \in 0..1, hk \in {"none", "status", "statusonly"}, o \in BOOLEAN, q \in DOMAIN Post :
          /\ Len(inner) >= 1 + t
          /\ (hk = "none" => \A i \in 1..Len(g) : g[i] # "P") /\ (hk = "none" => \A i \in 1..Len(inner) : inner[i] # "P")
          /\ (\A i \in 1..Len(g) : g[i] # "P")                 \* (panics only inside the nested chain)
          /\ (o => hk # "none")
          /\ (t = 1 => \A i \in 1..Len(inner) : inner[i] # "P")     \* (panics only when the re-dispatcher is the last handler of its chain)
          /\ c = [g |-> g, inner |-> inner, pre |-> p, tail |-> t, hook |-> hk, other |-> o, post |-> q]
Next == FALSE /\ c' = c

G == [i \in 1..Len(c.g) |-> Lib[c.g[i]]]
B == Len(c.g) + 1 + c.tail
TailH == IF c.tail = 1 THEN << Lib["N"] >> ELSE <<>>
Redispatcher == << <<"in">> >> \o Pre[c.pre] \o << <<"redispatch", B, HookOf(c.hook)>> >> \o Post[c.post] \o << <<"out">> >>
Chain == G \o <<Redispatcher>> \o TailH \o G \o [i \in 1..Len(c.inner) |-> Lib[c.inner[i]]]
OnErr == << <<"in">>, <<"status", 500>>, <<"out">> >>
D == IdealDispatch(Chain, OnErr, HookOf(c.hook))
RedispatchOK == OneCommit(D.w, D.wops)
Emit == PrintT(ToJson([kind |-> "redispatch", chain |-> Chain, n |-> Len(Chain), g |-> Len(c.g), b |-> B, tail |-> c.tail, other |-> c.other, log |-> D.log, under |-> D.w.under,
                       escaped |-> FALSE, hooked |-> FALSE, checkw |-> TRUE, onerror |-> OnErr] @@ (IF c.hook = "none" THEN <<>> ELSE [hook |-> HookOf(c.hook)])))
=============================================================================
