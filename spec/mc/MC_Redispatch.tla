----------------------------- MODULE MC_Redispatch -----------------------------
(* Re-dispatch: the main handler of one route rewrites the request path and calls Router.HandleContext(c).  The outer  *)
(* chain is  G ++ <<redispatcher>>, the nested dispatch runs  G ++ inner  on the same context and writer.  Every       *)
(* combination of global scripts, writer ops before the re-dispatch and inner chains; OneCommit must hold over the    *)
(* whole request.  One JSON line per case for the real router (family "chain", kind "redispatch").                    *)
EXTENDS RuxChainFn, Json

CONSTANTS MaxG, MaxInner, Scripts
VARIABLES c
Lib == [ R  |-> << <<"in">>, <<"out">> >>,
         N  |-> << <<"in">>, <<"next">>, <<"out">> >>,
         A  |-> << <<"in">>, <<"abort">>, <<"out">> >>,
         AS |-> << <<"in">>, <<"abortStatus", 403>>, <<"out">> >>,
         W  |-> << <<"in">>, <<"write", 2, "full">>, <<"out">> >> ]
\* (handlers that record errors are left out: OnError then runs at the end of the nested AND of the outer dispatch)
Pre == [ none |-> <<>>, status |-> << <<"status", 404>> >>, write |-> << <<"status", 202>>, <<"write", 3, "full">> >> ]
Seqs(n) == UNION { [1..k -> Scripts] : k \in 0..n }
\* tail = 1: the re-dispatcher is a MIDDLEWARE of its route, the route's main handler comes after it in the outer chain and
\* is never started (the cursor left behind by the nested dispatch is past it - the nested chain is at least as long)
Init == \E g \in Seqs(MaxG), inner \in Seqs(MaxInner) \ {<<>>}, p \in DOMAIN Pre, t \in 0..1 :
          /\ Len(inner) >= 1 + t
          /\ c = [g |-> g, inner |-> inner, pre |-> p, tail |-> t]
Next == FALSE /\ c' = c

G == [i \in 1..Len(c.g) |-> Lib[c.g[i]]]
B == Len(c.g) + 1 + c.tail
TailH == IF c.tail = 1 THEN << Lib["N"] >> ELSE <<>>
Redispatcher == << <<"in">> >> \o Pre[c.pre] \o << <<"redispatch", B>>, <<"out">> >>
Chain == G \o <<Redispatcher>> \o TailH \o G \o [i \in 1..Len(c.inner) |-> Lib[c.inner[i]]]
OnErr == << <<"in">>, <<"status", 500>>, <<"out">> >>
D == IdealDispatch(Chain, OnErr, None)
RedispatchOK == OneCommit(D.w, D.wops)
Emit == PrintT(ToJson([kind |-> "redispatch", chain |-> Chain, n |-> Len(Chain), g |-> Len(c.g), b |-> B, tail |-> c.tail, log |-> D.log, under |-> D.w.under,
                       escaped |-> FALSE, hooked |-> FALSE, checkw |-> TRUE, onerror |-> OnErr]))
=============================================================================
