--------------------------- MODULE MC_RouterCache ---------------------------
(* Complete state graph of router + LRU for fixed tables and a request alphabet: covers request histories of   *)
(* every length over that alphabet.  One JSON line per edge (a history reaching the source state + the step). *)
EXTENDS RuxRouterCache, Json

CONSTANTS TableNames, OptSets      \* which tables of Tables (generated, PoolDef); option sets <<hmna, hfb>> as "TT","TF","FT","FF"

VARIABLE hist
\* Tables, Requests: generated definitions (PoolDef)
Reqs  == { <<r[1], QOf(r[2])>> : r \in Requests }

VARIABLE tname
Init == /\ tname \in TableNames /\ hist = <<>>
        /\ \E o \in OptSets : CacheInit(Tables[tname], [hmna |-> (o \in {"TT", "TF"}), hfb |-> (o \in {"TT", "FT"}), icpt |-> <<>>])
Next == \/ RegStep /\ UNCHANGED <<hist, tname>>
        \/ \E r \in Reqs : Request(r[1], r[2]) /\ UNCHANGED tname /\ hist' = Append(hist, [m |-> r[1], path |-> PathSeq[r[2]],
                                 code |-> Code(last'.res), hit |-> last'.hit,
                                 keys |-> [i \in 1..Len(last'.keys) |-> <<last'.keys[i][1], IF last'.keys[i][2] > 0 THEN PathSeq[last'.keys[i][2]] ELSE <<"?">> >>]])
mcvars == <<cvars, hist, tname>>
MCTransparent        == [][TransparentA]_mcvars
MCFilledAfterDynamic == [][FilledAfterDynamicA]_mcvars
MCRepeatHits         == [][RepeatHitsA]_mcvars
View == <<tname, opts, tbl, todo, cap, cache>>
Emit == hist' = hist \/ PrintT(ToJson([table |-> tname, hmna |-> opts.hmna, hfb |-> opts.hfb, cap |-> cap, h |-> hist']))
=============================================================================
