------------------------------- MODULE MC_Defs -------------------------------
(* Every path definition of <= MaxLen tokens: the verdict function is total and consistent; one JSON line per        *)
(* definition (tokens + verdict) and one block for the method / handler / handler-count / option-order dimension.  *)
EXTENDS RuxDefs, RuxPath, Json

CONSTANTS Alphabet, MaxLen

VARIABLE d
Init == d = <<>>
Next == Len(d) < MaxLen /\ \E t \in Alphabet : d' = Append(d, t)

\* the definition registration works on is the normalised path (NewRoute + formatPath), per StrictLastSlash setting
DN(strict) == Norm(strict, Simple(d))
ConsistentInv == \A st \in BOOLEAN : Consistent(DN(st))
TotalInv == \A st \in BOOLEAN : Verdict(DN(st), "GET", FALSE, 0) \in {"reject", "accept", "unspecified"}
\* the same definition used as the PREFIX of a group whose only route has the plain path "/a": what registration works on
\* is the joined, normalised path (Router.Group + appendGroupInfo), and the verdict is the verdict of that path
GN(strict) == Norm(strict, Norm(strict, d) \o <<"/", "a">>)
Emit == PrintT(ToJson([def |-> d, verdict |-> Verdict(DN(FALSE), "GET", FALSE, 0), verdict_strict |-> Verdict(DN(TRUE), "GET", FALSE, 0),
                       verdict_group |-> Verdict(GN(FALSE), "GET", FALSE, 0), verdict_group_strict |-> Verdict(GN(TRUE), "GET", FALSE, 0),
                       why |-> [optional |-> BadOptional(DN(FALSE)), capvar |-> CapturingInVar(DN(FALSE)), unbalanced |-> Unbalanced(DN(FALSE)),
                                capout |-> CapturingOutsideVar(DN(FALSE))]]))

Base == <<"/", "a">>
ASSUME \A m \in DOMAIN MethodCases : \A hn \in BOOLEAN : \A n \in {0, 1, 61, 62, 63, 64, 127, 128, 200, 300} :
          PrintT(ToJson([method |-> m, text |-> MethodCases[m], handlernil |-> hn, nmw |-> n, verdict |-> Verdict(Base, m, hn, n)]))
=============================================================================
