------------------------------- MODULE MC_Chain -------------------------------
(* Instances of RuxChain.                                                                                     *)
(*  Mode "all"     : every chain of <= MaxN handlers over the script library Scripts (exhaustive, small n)    *)
(*  Mode "alltail" : every chain of <= MaxN - 1 handlers over Scripts followed by the script Base (a built-in handler)  *)
(*  Mode "uniform" : chains of n copies of one script, MinN <= n <= MaxN (real int8 / sentinel constants)      *)
(*  Mode "odd"     : n-1 copies of script Base with one handler of another script at every position           *)
(*  Mode "oddhead" : the same with the odd handler at positions 1..3 only (chains beyond the sentinel: an abort *)
(*                   at index >= 64 makes the real loop spin forever, so those chains must not be replayed)    *)
(* The cursor machine runs each chain to completion; invariants compare it with the ideal semantics.          *)
EXTENDS RuxChain, Json

CONSTANTS Mode, MinN, MaxN, Scripts, Base,
          Hooks      \* OnPanic hooks the prediction is exported for: subset of {"none", "nothing", "status", "statusbody"}

Lib == [ R  |-> << <<"in">>, <<"out">> >>,
         N  |-> << <<"in">>, <<"next">>, <<"out">> >>,
         NN |-> << <<"in">>, <<"next">>, <<"next">>, <<"out">> >>,
         A  |-> << <<"in">>, <<"abort">>, <<"out">> >>,
         AN |-> << <<"in">>, <<"abort">>, <<"next">>, <<"out">> >>,
         NA |-> << <<"in">>, <<"next">>, <<"abort">>, <<"out">> >>,
         AS |-> << <<"in">>, <<"abortStatus", 403>>, <<"next">>, <<"out">> >>,
         E  |-> << <<"in">>, <<"err">>, <<"next">>, <<"out">> >>,
         W  |-> << <<"in">>, <<"status", 201>>, <<"write", 2, "full">>, <<"next">>, <<"out">> >>,
         P  |-> << <<"in">>, <<"panic">>, <<"out">> >>,
         WP |-> << <<"in">>, <<"write", 3, "full">>, <<"panic">> >>,
         PA |-> << <<"in">>, <<"panic", "abort-sentinel">> >>,       \* panic(http.ErrAbortHandler): a panic like any other for the router
         EP |-> << <<"in">>, <<"err">>, <<"panic">> >>,
         SP |-> << <<"in">>, <<"status", 201>>, <<"panic">> >>,       \* chooses a status, then panics: the hook's answer is what counts               \* records an error, then panics
         PH |-> << <<"in">>, <<"catchnext">>, <<"out">> >>,
         NP |-> << <<"in">>, <<"next">>, <<"panic">>, <<"out">> >>,
         \* the router's built-in fallback handlers (not instrumented): 404, 405 and the automatic answer to OPTIONS
         D404 |-> << <<"httpError", 404, 19>> >>,
         D405 |-> << <<"httpError", 405, 19>> >>,
         DOPT |-> << <<"status", 200>> >>,
         \* pkg/handlers middleware called by a handler (the harness calls the real functions)
         FH |-> << <<"in">>, <<"lib", "favicon-hit">>, <<"out">> >>,
         FM |-> << <<"in">>, <<"lib", "favicon-miss">>, <<"out">> >>,
         BN |-> << <<"in">>, <<"lib", "basicauth-none">>, <<"out">> >>,
         BB |-> << <<"in">>, <<"lib", "basicauth-bad">>, <<"out">> >>,
         BO |-> << <<"in">>, <<"lib", "basicauth-ok">>, <<"out">> >>,
         TF |-> << <<"in">>, <<"lib", "timeout-fired">>, <<"out">> >>,
         TI |-> << <<"in">>, <<"lib", "timeout-idle">>, <<"out">> >>,
         \* response helpers of Context called by a handler (RuxChainFn.LibOps)
         NC |-> << <<"in">>, <<"lib", "nocontent">>, <<"next">>, <<"out">> >>,     \* answers 204 - nothing is committed yet - and lets the chain go on
         TX |-> << <<"in">>, <<"lib", "text200">>, <<"out">> >> ]

Chains ==
  CASE Mode = "all"     -> UNION { { [i \in 1..n |-> Lib[f[i]]] : f \in [1..n -> Scripts] } : n \in MinN..MaxN }
    [] Mode = "alltail" -> UNION { { [i \in 1..n |-> IF i = n THEN Lib[Base] ELSE Lib[f[i]]] : f \in [1..(n - 1) -> Scripts] } : n \in MinN..MaxN }
    [] Mode = "uniform" -> { [i \in 1..n |-> Lib[b]] : n \in MinN..MaxN, b \in Scripts }
    [] Mode = "oddhead" -> UNION { { [i \in 1..n |-> IF i = p THEN Lib[b] ELSE Lib[Base]] : p \in 1..3, b \in Scripts } : n \in MinN..MaxN }
    [] Mode = "odd"     -> UNION { { [i \in 1..n |-> IF i = p THEN Lib[b] ELSE Lib[Base]] : p \in 1..n, b \in Scripts } : n \in MinN..MaxN }

\* the documented handler limit (Route.Use / appendGroupInfo): a route with m middleware is accepted iff m < abortIndex,
\* ie the longest chain registration accepts without global middleware has AbortIdx handlers
ASSUME PrintT(ToJson([limit |-> [k \in 1..8 |-> [n |-> AbortIdx - 4 + k, accepted |-> (AbortIdx - 4 + k) - 1 < AbortIdx]]]))

VARIABLE src       \* the chain as written (with "lib" ops); the machines run its expansion
Init == \E c \in Chains : CursorInit(ExpandChain(c)) /\ src = c
Next == CursorNext /\ UNCHANGED src

\* one line per chain, when its run is complete: the ideal log is the prediction for the real code
HookScript(h) == CASE h = "none" -> None
                    [] h = "nothing" -> << <<"in">> >>
                    [] h = "status" -> << <<"in">>, <<"status", 500>> >>
                    [] h = "ok200" -> << <<"in">>, <<"status", 200>>, <<"write", 2, "full">> >>     \* a fallback page with an explicit 200
                    [] h = "statusbody" -> << <<"in">>, <<"status", 503>>, <<"write", 4, "full">>, <<"out">> >>
OnErr == << <<"in">>, <<"status", 500>>, <<"out">> >>
LineFor(h) == LET d == IdealDispatch(chain, OnErr, HookScript(h)) IN
              [chain |-> src, n |-> Len(chain), log |-> d.log,
               clog |-> log,       \* what the CURSOR machine (Context.Next as written) logs: beyond the sentinel it differs from the ideal (F20)
               under |-> d.w.under, escaped |-> d.escaped, hooked |-> d.hooked,
               checkw |-> TRUE, onerror |-> OnErr] @@ (IF h = "none" THEN <<>> ELSE [hook |-> HookScript(h)])
Emit == ~Done \/ \A h \in Hooks : PrintT(ToJson(LineFor(h)))
\* C08/C09 on the ideal dispatch (the writer functions mirror response_wirter.go, OneCommit is the statement)
DispatchOK == Done => \A h \in Hooks : LET d == IdealDispatch(chain, OnErr, HookScript(h)) IN
                 /\ (~d.escaped => OneCommit(d.w, d.wops))
                 /\ (d.escaped <=> (d.pan /\ h = "none"))
=============================================================================
