-------------------------------- MODULE MC_Reg --------------------------------
(* Every registration program of <= MaxActs statements (depth <= MaxDepth, <= MaxRoutes routes): the operational      *)
(* save/restore machine agrees with lexical scoping.  Complete programs (all groups closed, >= 1 route) are exported. *)
EXTENDS RuxReg, Json

CONSTANTS MaxActs, MaxDepth, MaxRoutes

GroupPrefixes == { <<"/", "a">>, <<"b">>, <<"/", "c", "/">>, <<"/">>, <<>> }     \* incl. the root prefixes "/" and ""
RoutePaths == { <<"/", "x">>, <<"y", "/">>, <<>>, <<"/", "a", "x">> }      \* "/ax" begins with the text of the prefix "/a"

ResBases == { <<"/">>, <<>>, <<"/", "a", "/">> }       \* Resource("/", ctl), Resource("", ctl), Resource("/a/", ctl)

Init == RegInit
Next == /\ Len(prog) < MaxActs
        /\ \/ \E p \in GroupPrefixes, n \in 0..1 : Depth < MaxDepth /\ Enter(p, n, FALSE)
           \/ \E n \in 2..3 : Depth < MaxDepth /\ Enter(<<"/", "a">>, n, TRUE)      \* Group("/a", fn, common[:n]...)
           \/ Exit
           \/ \E n \in 1..2 : Use(n)
           \/ \E p \in RoutePaths, n \in 0..1 : Len(routes) < MaxRoutes /\ Add(p, n)
           \/ \E b \in ResBases, n \in 0..1 : Len(routes) < MaxRoutes /\ Res(b, n)
           \/ Len(routes) > 0 /\ RouteUse(Len(routes), 1)

Complete == saved = <<>> /\ Len(routes) >= 1
Line == [prog |-> prog, nglobal |-> Len(global),
         routes |-> [k \in 1..Len(routes) |-> [pos |-> routes[k].pos, path |-> ExpPath(routes[k].pos), chain |-> ExpChain(k),
                                               nmw |-> Len(ExpRouteMw(k))]]]
Emit == ~Complete \/ PrintT(ToJson(Line))
=============================================================================
