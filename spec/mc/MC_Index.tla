------------------------------- MODULE MC_Index -------------------------------
(* Model-checking instance of RuxIndex: every table of <= MaxTable routes over the pool, every path   *)
(* of the universe, every request method.  One JSON line per table is exported for replay on the     *)
(* real router (family "match"), plus the path universe and the match matrix (sets of admissible     *)
(* parameter bindings, property C02).                                                                *)
EXTENDS RuxIndex, Json

Init == IndexInit
Next == /\ Len(tbl) < MaxTable
        /\ \E i \in 1..NP, ms \in MethodSets : Register(i, ms)

HitsOf(m) == LET qs == SelectSeq([q \in 1..NPaths |-> q], LAMBDA q : Select(m, q) # 0)
             IN  [x \in 1..Len(qs) |-> <<qs[x], Select(m, qs[x])>>]
Line == [t |-> tbl, hits |-> [m \in ReqMethods |-> HitsOf(m)]]
\* exported from an INVARIANT (evaluated once per distinct state; priming Line would defeat TLC's caching of Mat)
Emit == tbl = <<>> \/ PrintT(ToJson(Line))

\* header: pool (as rux source text), variable names, path universe
ASSUME PrintT(ToJson([hdr |-> 1, pool |-> PoolText, names |-> [i \in 1..NP |-> Names(Pool[i])],
                      paths |-> PathSeq, methods |-> SetToSeq(ReqMethods)]))
\* match matrix: for every pattern the paths it matches with ALL admissible bindings (C02).
\* One ASSUME with the matrix bound by LET: TLC does not share the memoised constant between ASSUMEs.
CellsOf(mt, i) == LET qs == SelectSeq([q \in 1..NPaths |-> q], LAMBDA q : mt[i][q] # {})
                  IN [x \in 1..Len(qs) |-> [q |-> qs[x], b |-> SetToSeq(mt[i][qs[x]])]]
ASSUME LET mt == Mat IN
  /\ \A i \in 1..NP : PrintT(ToJson([pat |-> i, cells |-> CellsOf(mt, i)]))
  \* C02 (O1): every binding has exactly the pattern's names, substitutes back to the path, values satisfy the classes
  /\ \A i \in 1..NP : \A q \in 1..NPaths : mt[i][q] # {} => DecompSound(Pool[i], PathSeq[q], mt[i][q])
  \* how many matching cells have a unique decomposition (reported in the evidence)
  /\ PrintT(ToJson([stat |-> "cells", matching |-> Cardinality({ c \in (1..NP) \X (1..NPaths) : mt[c[1]][c[2]] # {} }),
                      unique |-> Cardinality({ c \in (1..NP) \X (1..NPaths) : Cardinality(mt[c[1]][c[2]]) = 1 })]))
=============================================================================
