----------------------------- MODULE MC_Resource -----------------------------
(* All 128 subsets of the seven actions x base paths: the operational table equals the documented table; probes. *)
EXTENDS RuxResource, Json

VARIABLES impl, base
Bases == { <<"/">>, <<"/", "a", "p", "i", "/">>, <<>>, <<"/", "A", "p", "I", "/">>, <<"/", "v", "1", ".", "0", "/">> }     \* the base path is kept as written (only the resource name is lower-cased)
Res == <<"r", "e", "s">>
Init == impl = {} /\ base \in Bases
Next == \E a \in Actions \ impl : impl' = impl \cup {a} /\ UNCHANGED base

GroupPrefix == base \o Res                                  \* basePath += resName
DocBase == Norm(FALSE, GroupPrefix)                         \* "/res", "/api/res"
TableOK == OpTable(GroupPrefix, impl) = DocTable(DocBase, impl)
DetOK == Deterministic(impl)
Methods9 == {"GET", "POST", "PUT", "PATCH", "DELETE", "HEAD", "OPTIONS", "CONNECT", "TRACE"}
Kinds == {"root", "create", "item", "edit", "createedit", "deep", "other"}
Emit == PrintT(ToJson([impl |-> impl, base |-> base,
                       table |-> { [action |-> r.action, methods |-> r.methods, path |-> r.path] : r \in DocTable(DocBase, impl) },
                       \* on a StrictLastSlash router the trailing slashes of the relative paths stay (RegPath with strict = TRUE)
                       stricttable |-> { [action |-> a, methods |-> DocMethods(a), path |-> RegPath(TRUE, <<GroupPrefix>>, RelPath(a))] : a \in impl },
                       probes |-> { <<m, k, ServesQ(impl, m, k)>> : m \in Methods9, k \in Kinds }]))
=============================================================================
