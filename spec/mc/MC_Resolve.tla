------------------------------ MODULE MC_Resolve ------------------------------
(* Tables over a small pool x option sets x request methods x paths: operational QuickMatch = declarative C06 order. *)
EXTENDS RuxResolve, Json

CONSTANTS Intercepts     \* names of intercept spellings explored: subset of {"off", "/a", "a", "/a/", "/zz"}

IcptOf(n) == CASE n = "off" -> <<>>
               [] n = "/a"  -> <<"/", "a">>
               [] n = "a"   -> <<"a">>
               [] n = "/a/" -> <<"/", "a", "/">>
               [] n = " /a " -> <<"SP", "/", "a", "SP">>

Init == /\ IndexInit
        /\ opts \in { [hmna |-> a, hfb |-> b, icpt |-> IcptOf(n)] : a \in BOOLEAN, b \in BOOLEAN, n \in Intercepts }
Next == /\ Len(tbl) < MaxTable
        /\ \E i \in 1..NP, ms \in MethodSets : Register(i, ms)
        /\ UNCHANGED opts

QSeq == SetToSeq(ReqQs)
Line == [t |-> tbl, opts |-> [hmna |-> opts.hmna, hfb |-> opts.hfb, icpt |-> opts.icpt],
         effq |-> IF opts.icpt = <<>> THEN 0 ELSE EffQ(1, FALSE),
         res |-> [m \in ReqMethods |-> [x \in 1..Len(QSeq) |-> Code(Resolve(m, QSeq[x]))]]]
Emit == PrintT(ToJson(Line))

ASSUME PrintT(ToJson([hdr |-> 1, pool |-> PoolText, names |-> [i \in 1..NP |-> Names(Pool[i])],
                      paths |-> PathSeq, qseq |-> QSeq, methods |-> SetToSeq(ReqMethods)]))
CellsOf(mt, i) == LET qs == SelectSeq([q \in 1..NPaths |-> q], LAMBDA q : mt[i][q] # {})
                  IN [x \in 1..Len(qs) |-> [q |-> qs[x], b |-> SetToSeq(mt[i][qs[x]])]]
ASSUME LET mt == Mat IN \A i \in 1..NP : PrintT(ToJson([pat |-> i, cells |-> CellsOf(mt, i)]))
=============================================================================
