------------------------------ MODULE MC_Resolve ------------------------------
(* Tables over a small pool x option sets x request methods x paths: operational QuickMatch = declarative C06 order. *)
EXTENDS RuxResolve, Json

CONSTANTS Stricts,       \* subset of BOOLEAN: StrictLastSlash off / on
          Intercepts     \* names of intercept spellings explored: subset of {"off", "/a", "a", "/a/", "/zz"}

IcptOf(n) == CASE n = "off" -> <<>>
               [] n = "/a"  -> <<"/", "a">>
               [] n = "a"   -> <<"a">>
               [] n = "/a/" -> <<"/", "a", "/">>
               [] n = " /a " -> <<"SP", "/", "a", "SP">>

Init == /\ IndexInit
        /\ opts \in { [hmna |-> a, hfb |-> b, icpt |-> IcptOf(n), strict |-> st] : a \in BOOLEAN, b \in BOOLEAN, n \in Intercepts, st \in Stricts }
\* a pattern that ends in '/' is a route of its own only on a strict router (otherwise registration removes the slash)
EndsSlash(i) == IsStatic(Pool[i]) /\ LET t == TextOf(Pool[i][1]) IN Len(t) > 1 /\ t[Len(t)] = "/"
Next == /\ Len(tbl) < MaxTable
        /\ \E i \in 1..NP, ms \in MethodSets : (opts.strict \/ ~EndsSlash(i)) /\ Register(i, ms)
        /\ UNCHANGED opts

QSeq == SetToSeq(ReqQsStrict)
Line == [t |-> tbl, opts |-> [hmna |-> opts.hmna, hfb |-> opts.hfb, icpt |-> opts.icpt, strict |-> opts.strict],
         effq |-> IF opts.icpt = <<>> THEN 0 ELSE EffQ(1, FALSE),
         nq  |-> [x \in 1..Len(QSeq) |-> RQ(QSeq[x])],
         res |-> [m \in ReqMethods |-> [x \in 1..Len(QSeq) |-> Code(Resolve(m, RQ(QSeq[x])))]]]
Emit == PrintT(ToJson(Line))

ASSUME PrintT(ToJson([hdr |-> 1, pool |-> PoolText, names |-> [i \in 1..NP |-> Names(Pool[i])],
                      paths |-> PathSeq, qseq |-> QSeq, methods |-> SetToSeq(ReqMethods)]))
CellsOf(mt, i) == LET qs == SelectSeq([q \in 1..NPaths |-> q], LAMBDA q : mt[i][q] # {})
                  IN [x \in 1..Len(qs) |-> [q |-> qs[x], b |-> SetToSeq(mt[i][qs[x]])]]
ASSUME LET mt == Mat IN \A i \in 1..NP : PrintT(ToJson([pat |-> i, cells |-> CellsOf(mt, i)]))
=============================================================================
