------------------------------ MODULE MC_Resolve ------------------------------
(* Tables over a small pool x option sets x request methods x paths: operational QuickMatch = declarative C06 order. *)
EXTENDS RuxResolve, Json

CONSTANTS Intercepts     \* names of intercept spellings explored: subset of {"off", "/a", "a", "/a/", "/zz"}

IcptOf(n) == CASE n = "off" -> <<>>
               [] n = "/a"  -> <<"/", "a">>
               [] n = "a"   -> <<"a">>
               [] n = "/a/" -> <<"/", "a", "/">>
               [] n = " /a " -> <<"SP", "/", "a", "SP">>

Init == /\ IndexInit
        /\ opts \in { [hmna |-> a, hfb |-> b, icpt |-> IcptOf(n)] : a \in BOOLEAN, b \in BOOLEAN, n \in Intercepts }
Next == /\ Len(tbl) < MaxTable
        /\ \E i \in 1..NP, ms \in MethodSets : Register(i, ms)
        /\ UNCHANGED opts

\* compact export: one integer per (method, path) cell
\*   0 notfound | r direct | 100+r via HEAD->GET | 200+r via fallback | 1000+bitmask(allowed methods in Nine order)
Pow2(n) == 2 ^ n
Mask(S) == LET bit(i) == IF Nine[i] \in S THEN Pow2(i - 1) ELSE 0
           IN bit(1) + bit(2) + bit(3) + bit(4) + bit(5) + bit(6) + bit(7) + bit(8) + bit(9)
Code(res) == CASE res.kind = "notfound" -> 0
               [] res.kind = "notallowed" -> 1000 + Mask(res.allow)
               [] res.via = "direct" -> res.r
               [] res.via = "head" -> 100 + res.r
               [] res.via = "fallback" -> 200 + res.r
QSeq == SetToSeq(ReqQs)
Line == [t |-> tbl, opts |-> [hmna |-> opts.hmna, hfb |-> opts.hfb, icpt |-> opts.icpt],
         effq |-> IF opts.icpt = <<>> THEN 0 ELSE EffQ(1, FALSE),
         res |-> [m \in ReqMethods |-> [x \in 1..Len(QSeq) |-> Code(Resolve(m, QSeq[x]))]]]
Emit == PrintT(ToJson(Line))

ASSUME PrintT(ToJson([hdr |-> 1, pool |-> PoolText, names |-> [i \in 1..NP |-> Names(Pool[i])],
                      paths |-> PathSeq, qseq |-> QSeq, methods |-> SetToSeq(ReqMethods)]))
CellsOf(mt, i) == LET qs == SelectSeq([q \in 1..NPaths |-> q], LAMBDA q : mt[i][q] # {})
                  IN [x \in 1..Len(qs) |-> [q |-> qs[x], b |-> SetToSeq(mt[i][qs[x]])]]
ASSUME LET mt == Mat IN \A i \in 1..NP : PrintT(ToJson([pat |-> i, cells |-> CellsOf(mt, i)]))
=============================================================================
