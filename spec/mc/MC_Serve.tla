------------------------------- MODULE MC_Serve -------------------------------
(* Every interleaving (at handler-boundary granularity) of the in-flight requests r1..r3 of RuxServe.  One JSON line   *)
(* per explored transition: a schedule prefix reaching it, with the log every request must have produced so far.       *)
EXTENDS RuxServe, Json

CONSTANTS K1, K2, K3          \* the route each request resolves to: "a" | "b" | "nf"
MCKindOf(r) == CASE r = "r1" -> K1 [] r = "r2" -> K2 [] r = "r3" -> K3

VARIABLE hist
\* "silent": a step of the model inside one uninterrupted stretch of the code (the harness does nothing for it)
Act(r) == IF pc[r] = "new" THEN "acquire"
          ELSE IF pc[r] = "start" THEN (IF phase[r] = 0 THEN "start" ELSE "silent")
          ELSE IF pos[r] > chain[r].len /\ KindOf(r) = "rd" /\ phase[r] = 0 THEN "silent" ELSE "step"
MCInit == Init /\ hist = <<>>
MCNext == \E r \in Reqs : /\ (Acquire(r) \/ Start(r) \/ Boundary(r))
                          /\ hist' = Append(hist, <<r, Act(r)>>)
View == svars
Emit == PrintT(ToJson([sched |-> hist', logs |-> log', done |-> [r \in Reqs |-> pc'[r] = "done"], ctx |-> ctx',
                       kinds |-> [r \in Reqs |-> MCKindOf(r)], glen |-> GLen, gcap |-> GCap, mwlen |-> MwLen, mwcap |-> MwCap]))
=============================================================================
