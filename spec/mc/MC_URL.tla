-------------------------------- MODULE MC_URL --------------------------------
(* Every named pattern of the pool (no optional parts) x every value assignment: RoundTrip holds; cases exported for      *)
(* BuildURL -> String -> http.NewRequest -> Match on the real router.  Name-table programs of <= MaxOps naming calls. *)
EXTENDS RuxURL, PoolDef, Json

CONSTANTS MaxOps

VARIABLES pi, asg, have, ops
Apis  == {"AddNamed", "NewNamedRoute+AddRoute", "NewNamedRoute+AttachTo", "Add+NamedTo"}
NamesN == {"n1", "n2"}

Init == /\ pi \in 0..Len(Pool) /\ asg = <<>> /\ have = FALSE /\ ops = <<>>
Next == \/ /\ pi > 0 /\ ~have /\ \E a \in Assignments(Pool[pi]) : asg' = a
           /\ have' = TRUE /\ UNCHANGED <<pi, ops>>
        \/ /\ pi = 0 /\ Len(ops) < MaxOps
           /\ \/ \E api \in Apis, n \in NamesN : ops' = Append(ops, [api |-> api, name |-> n, route |-> Len(ops) + 1])
              \/ \E k \in 1..Len(ops), n \in NamesN \cup {"n3"} :            \* rename an existing route (NamedTo)
                     ops[k].api # "Rename" /\ ops' = Append(ops, [api |-> "Rename", name |-> n, route |-> ops[k].route])
           /\ UNCHANGED <<pi, asg, have>>

HasCase == pi > 0 /\ have
RoundTripInv == HasCase => RoundTrip(Pool[pi], asg)
Emit == /\ (HasCase => PrintT(ToJson([pat |-> PoolText[pi], asg |-> asg, built |-> Built(Pool[pi], asg),
                                      routable |-> Routable(FALSE, Pool[pi], asg), routable_strict |-> Routable(TRUE, Pool[pi], asg),
                                      unique |-> UniqueBack(Pool[pi], asg)])))
        /\ ((pi = 0 /\ ops # <<>>) => PrintT(ToJson([ops |-> ops, table |-> NameTable(ops)])))
=============================================================================
