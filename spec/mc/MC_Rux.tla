--------------------------------- MODULE MC_Rux ---------------------------------
(* Simulation instance of the composition: `tlc -simulate` produces behaviours (a registration program followed by    *)
(* MaxReqs requests); every complete behaviour is printed once, with the predicted observation of every request.    *)
EXTENDS Rux, Json
Emit == BehaviourDone => PrintT(ToJson([h |-> hist]))
=============================================================================
