------------------------------- MODULE MC_Writer -------------------------------
(* C08: every sequence of <= MaxOps writer operations, issued from one handler or distributed over two or three     *)
(* handlers of a chain (before / after Next).  The writer functions of RuxChain mirror response_wirter.go; OneCommit *)
(* is the statement.  One JSON line per sequence and distribution for replay with a recording ResponseWriter.      *)
EXTENDS RuxChain, Json

CONSTANTS MaxOps, Alphabet    \* Alphabet: names of writer ops, see OpOf

OpOf(a) == CASE a = "S0"   -> <<"status", 0>>
             [] a = "Sneg" -> <<"status", -1>>
             [] a = "S100" -> <<"status", 100>>
             [] a = "S200" -> <<"status", 200>>      \* an explicit 200 is a status like any other: it replaces an earlier choice
             [] a = "S201" -> <<"status", 201>>
             [] a = "S404" -> <<"status", 404>>
             [] a = "S500" -> <<"status", 500>>
             [] a = "S299" -> <<"status", 299>>      \* a legal code net/http has no text for: a status like any other
             [] a = "S520" -> <<"status", 520>>
             [] a = "W0"   -> <<"write", 0, "full">>
             [] a = "W1"   -> <<"write", 1, "full">>
             [] a = "W3"   -> <<"write", 3, "full">>
             [] a = "Wshort" -> <<"write", 3, "short">>
             [] a = "Werr" -> <<"write", 2, "err">>
             [] a = "F"    -> <<"flush">>
             [] a = "E404" -> <<"httpError", 404, 5>>
             [] a = "AS401" -> <<"abortStatus", 401>>
             \* helpers of Context (RuxChainFn.LibOps gives their meaning, the harness calls the real methods)
             [] a = "T200"  -> <<"lib", "text200">>
             [] a = "H200e" -> <<"lib", "html200-empty">>
             [] a = "J201"  -> <<"lib", "json201">>
             [] a = "JB200" -> <<"lib", "jsonbytes200">>
             [] a = "NC"    -> <<"lib", "nocontent">>

VARIABLE ops
\* the cursor machine's variables are not used by this instance
Idle == chain = <<>> /\ idx = 0 /\ stack = <<>> /\ log = <<>> /\ crash = FALSE /\ ab = FALSE
Init == ops = <<>> /\ Idle
Next == Len(ops) < MaxOps /\ \E a \in Alphabet : ops' = Append(ops, OpOf(a)) /\ UNCHANGED cursorvars

In == <<"in">>  Out == <<"out">>  Nx == <<"next">>
\* distributions of ops over handlers: all in one; split at k (first part before Next in handler 1, rest in handler 2);
\* onion: first part before Next in handler 1, middle in handler 2, last part after Next in handler 1
OneH        == << <<In>> \o ops \o <<Out>> >>
Split(k)    == << <<In>> \o SubSeq(ops, 1, k) \o <<Nx, Out>>, <<In>> \o SubSeq(ops, k + 1, Len(ops)) \o <<Out>> >>
Onion(j, k) == << <<In>> \o SubSeq(ops, 1, j) \o <<Nx>> \o SubSeq(ops, k + 1, Len(ops)) \o <<Out>>,
                  <<In>> \o SubSeq(ops, j + 1, k) \o <<Out>> >>
Dists == {OneH} \cup { Split(k) : k \in 0..Len(ops) } \cup { Onion(jk[1], jk[2]) : jk \in { x \in (0..Len(ops)) \X (0..Len(ops)) : x[1] <= x[2] } }

WriterOK == \A ch \in Dists : LET d == IdealDispatch(ExpandChain(ch), None, None) IN
               /\ OneCommit(d.w, d.wops)
               /\ d.wops = ExpandScript(ops)                   \* every distribution executes the ops in the same order
               /\ d.w.under[1][1] = "WH" /\ \A i \in 2..Len(d.w.under) : d.w.under[i][1] # "WH"
LineFor(ch) == LET d == IdealDispatch(ExpandChain(ch), None, None) IN
               [chain |-> ch, n |-> Len(ch), log |-> d.log, under |-> d.w.under, escaped |-> FALSE, hooked |-> FALSE, checkw |-> TRUE,
                status |-> d.w.status, length |-> d.w.length]
Emit == \A ch \in (IF Len(ops) = MaxOps \/ Len(ops) <= 2 THEN Dists ELSE {OneH}) : PrintT(ToJson(LineFor(ch)))
=============================================================================
