------------------------------- MODULE MC_Gates -------------------------------
(* Every case of the three gates: code steps agree with the statement; one JSON line per case for the real handlers. *)
EXTENDS RuxGates, Json, SequencesExt

VARIABLE c      \* the case
Users == {"u", "v", "w"}
Pwds  == {"p", "q", ""}
AccountSets == { <<>>, [x \in {"u"} |-> "p"], [x \in {"u"} |-> ""], [x \in {"u", "v"} |-> IF x = "u" THEN "p" ELSE "q"] }
Creds == { [kind |-> "absent", user |-> "", pwd |-> "", shape |-> 0] }
         \cup { [kind |-> "malformed", user |-> "", pwd |-> "", shape |-> s] : s \in 1..5 }
         \cup { [kind |-> "basic", user |-> u, pwd |-> p, shape |-> 0] : u \in Users, p \in Pwds }
Methods9 == {"GET", "POST", "PUT", "PATCH", "DELETE", "HEAD", "OPTIONS", "CONNECT", "TRACE"}
OVals == {"", "put", "PUT", "Put", "patch", "delete", "get", "post", "bogus", "PAT", "DEL", "T", "PUT,PATCH", ","}   \* (fragments and lists of the three names are not names)
Wrappers == {"w1", "w2", "w3", "w4"}
WrapLists == UNION { { s \in [1..n -> Wrappers] : \A i, j \in 1..n : i # j => s[i] # s[j] } : n \in 1..4 }

AccIdx(a) == CHOOSE i \in 1..4 : <<<<>>, [x \in {"u"} |-> "p"], [x \in {"u"} |-> ""], [x \in {"u", "v"} |-> IF x = "u" THEN "p" ELSE "q"]>>[i] = a
Init == \/ \E a \in AccountSets, cr \in Creds : c = [gate |-> "auth", acc |-> a, cred |-> cr]
        \/ \E m \in Methods9, f \in OVals, h \in OVals : c = [gate |-> "override", m |-> m, form |-> f, hdr |-> h]
        \/ \E ws \in WrapLists : c = [gate |-> "wrap", ws |-> ws]
Next == FALSE /\ c' = c

GatesOK == CASE c.gate = "auth" -> AuthOp(c.acc, c.cred) = AuthDecl(c.acc, c.cred)
             [] c.gate = "override" -> OverrideOp(c.m, c.form, c.hdr) \in OverrideAllowed(c.m, c.form, c.hdr)
             [] c.gate = "wrap" -> WrapOp(c.ws) = WrapDecl(c.ws)
AccJson(a) == [u \in DOMAIN a |-> a[u]]
Emit == PrintT(ToJson(
   CASE c.gate = "auth" -> [gate |-> "auth", accounts |-> SetToSeq({ <<u, c.acc[u]>> : u \in DOMAIN c.acc }), cred |-> c.cred,
                            expect |-> AuthDecl(c.acc, c.cred)]
     [] c.gate = "override" -> [gate |-> "override", m |-> c.m, form |-> c.form, hdr |-> c.hdr,
                                allowed |-> SetToSeq(OverrideAllowed(c.m, c.form, c.hdr))]
     [] c.gate = "wrap" -> [gate |-> "wrap", ws |-> c.ws, order |-> WrapDecl(c.ws)]))
=============================================================================
