-------------------------------- MODULE RuxBind --------------------------------
(***************************************************************************)
(* Automatic binding (pkg/binding Auto, context_binding.go), property C18. *)
(*   Source(method, ctype): where the data is taken from - decided solely  *)
(*   by the request method and Content-Type.                               *)
(*   Outcome(...): error / success, validator gating.                      *)
(* Values of the bindable struct are enumerated by TLC (small domains);    *)
(* codec fidelity itself (encode, bind back, compare) is library           *)
(* behaviour: TLC supplies the value space and the identity oracle.        *)
(***************************************************************************)
EXTENDS Integers, Sequences, FiniteSets, TLC

CONSTANT D_DeleteHasBody      \* deviation: DELETE is treated as a method with a body

BodyMethods == {"POST", "PUT", "PATCH"}
\* Content-Type cases: [media |-> lower-case media type, params |-> BOOLEAN]
Media == {"application/x-www-form-urlencoded", "multipart/form-data", "application/json", "application/xml", "text/xml",
          "text/plain", "application/octet-stream", "text/html", ""}
\* ---- the statement ------------------------------------------------------------------------------
SourceDecl(method, media) ==
  IF method \notin BodyMethods THEN "query"
  ELSE CASE media = "application/x-www-form-urlencoded" -> "form"
         [] media = "multipart/form-data" -> "multipart"
         [] media = "application/json" -> "json"
         [] media \in {"application/xml", "text/xml"} -> "xml"
         [] OTHER -> "error"
\* ---- the code: strings.Contains tests in order ---------------------------------------------------------
Frag(media) == CASE media = "application/x-www-form-urlencoded" -> "/x-www-form-urlencoded"
                 [] media = "multipart/form-data" -> "/form-data"
                 [] media = "application/json" -> "/json"
                 [] media \in {"application/xml", "text/xml"} -> "/xml"
                 [] OTHER -> "-"
SourceOp(method, media) ==
  IF method \notin BodyMethods /\ ~(D_DeleteHasBody /\ method = "DELETE") THEN "query"
  ELSE LET f == Frag(media) IN
       IF f = "/x-www-form-urlencoded" THEN "form"
       ELSE IF f = "/form-data" THEN "multipart"
       ELSE IF f = "/json" THEN "json"
       ELSE IF f = "/xml" THEN "xml"
       ELSE "error"

\* error / success of a bind: malformed input is an error; with a validator, invalid values are an error
Outcome(source, wellFormed, valid, validatorOn) ==
  IF source = "error" \/ ~wellFormed THEN "error"
  ELSE IF validatorOn /\ ~valid THEN "error" ELSE "ok"
SuccessImpliesValid(source, wellFormed, valid, validatorOn) ==
  (Outcome(source, wellFormed, valid, validatorOn) = "ok" /\ validatorOn) => valid

\* ---- the value space of the representative struct  { Age int; Name string; Ok bool; Tags []string } -----------------
Ages  == {0, -1, 42}
Chars == {"a", "SP", "AMP", "EQ", "EACUTE", "LT"}            \* separators of every format and a non-ASCII letter
Strs  == { <<>> } \cup { <<c>> : c \in Chars } \cup { <<c, d>> : c \in {"a", "AMP", "EACUTE"}, d \in {"SP", "EQ", "LT"} }
TagVals == { <<"x">>, <<"a", "AMP">>, <<"EACUTE">> }
TagSeqs == { <<>> } \cup { <<t>> : t \in TagVals } \cup { <<t, u>> : t \in TagVals, u \in TagVals }
Values == [age : Ages, name : Strs, ok : BOOLEAN, tags : TagSeqs]
Valid(v) == v.age >= 0 /\ Len(v.name) <= 2                    \* the validation rules attached to the struct
=============================================================================
