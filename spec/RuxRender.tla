------------------------------- MODULE RuxRender -------------------------------
(***************************************************************************)
(* Response helpers (context_render.go) and the renderers / content        *)
(* negotiation of pkg/render, property C19.                                *)
(*   Predict(helper, status, preset, vclass): status, Content-Type and     *)
(*   body shape of the response, or an encoding error that must surface in *)
(*   Context.Errors / the returned error (never a panic).                  *)
(*   Negotiate(accepts): the first supported media type listed.            *)
(* Body fidelity (decode the body back and compare) is library behaviour:  *)
(* TLC enumerates the cases, the harness decodes.                          *)
(***************************************************************************)
EXTENDS Integers, Sequences, FiniteSets, TLC

CONSTANT D_XmlCaseEmpty     \* F17: `case MIMEXML:` has an empty body (Go does not fall through), application/xml is skipped

\* ("MustRender" / "ShouldRender": the entry points that take a renderer, here the JSON renderer)
Helpers == {"Text", "HTML", "JSON", "JSONBytes", "JSONP", "XML", "Blob", "Stream", "NoContent", "Redirect", "HTTPError", "MustRender", "ShouldRender",
            "render.Text", "render.JSON", "render.XML", "render.JSONP", "render.Blob"}
\* helpers that go through the renderers of pkg/render keep a Content-Type the caller has already set
KeepsPreset(h) == h \in {"JSON", "JSONP", "XML", "MustRender", "ShouldRender", "render.Text", "render.JSON", "render.XML", "render.JSONP", "render.Blob"}
DocType(h) == CASE h \in {"Text", "render.Text", "HTTPError"} -> "text/plain; charset=utf-8"
                [] h = "HTML" -> "text/html; charset=utf-8"
                [] h \in {"JSON", "JSONBytes", "render.JSON", "MustRender", "ShouldRender"} -> "application/json; charset=utf-8"
                [] h \in {"JSONP", "render.JSONP"} -> "application/javascript; charset=utf-8"
                [] h \in {"XML", "render.XML"} -> "application/xml; charset=utf-8"
                [] h \in {"Blob", "Stream", "render.Blob"} -> "image/custom"        \* the type given by the caller
                [] h = "Redirect" -> "*"                                             \* not constrained (net/http's business)
                [] OTHER -> ""
\* value classes and which encoders can encode them
VClasses == {"str_plain", "str_html", "str_ctrl", "str_unicode", "map_nested", "struct", "bytes", "chan"}
Encoder(h) == CASE h \in {"JSON", "JSONP", "render.JSON", "render.JSONP", "MustRender", "ShouldRender"} -> "json" [] h \in {"XML", "render.XML"} -> "xml" [] OTHER -> "raw"
Encodable(h, vc) == CASE Encoder(h) = "json" -> vc # "chan"
                      [] Encoder(h) = "xml" -> vc \notin {"chan", "map_nested", "bytes"}     \* encoding/xml has no encoding for maps and byte slices
                      [] OTHER -> vc \in {"str_plain", "str_html", "str_ctrl", "str_unicode", "bytes"}
Applicable(h, vc) == Encoder(h) # "raw" \/ vc \in {"str_plain", "str_html", "str_ctrl", "str_unicode", "bytes"}
TakesStatus(h) == h \notin {"NoContent", "render.Text", "render.JSON", "render.XML", "render.JSONP", "render.Blob"}

Predict(h, status, preset, vc) ==
  [ status |-> IF h = "NoContent" THEN 204 ELSE IF TakesStatus(h) THEN status ELSE 200,
    ctype  |-> IF preset /\ KeepsPreset(h) THEN "preset/type" ELSE DocType(h),
    body   |-> CASE h = "NoContent" -> "empty"
                 [] h = "Redirect" -> "redirect"
                 [] h = "HTTPError" -> "message"
                 [] ~Encodable(h, vc) -> "encoding-error"
                 [] h \in {"JSONP", "render.JSONP"} -> "callback(json);"
                 [] OTHER -> Encoder(h) ]

\* ---- content negotiation (render.Auto) ----------------------------------------------------------------
Supported == {"application/json", "text/plain", "application/xml", "text/xml"}
Kind(t)   == CASE t = "application/json" -> "json" [] t = "text/plain" -> "text" [] t \in {"application/xml", "text/xml"} -> "xml"
\* entries of the Accept header, parameters already stripped; an empty list falls back to text/plain
Negotiate(accepts) == LET l == IF accepts = <<>> THEN <<"text/plain">> ELSE accepts
                          hits == { i \in 1..Len(l) : l[i] \in Supported } IN
                      IF hits = {} THEN "unsupported" ELSE Kind(l[CHOOSE i \in hits : \A j \in hits : i <= j])
RECURSIVE AutoLoop(_, _)
AutoLoop(l, i) ==    \* for _, accept := range accepts { switch accept { ... } if handled { break } }
  IF i > Len(l) THEN "unsupported"
  ELSE CASE l[i] = "application/json" -> "json"
         [] l[i] = "text/plain" -> "text"
         [] l[i] = "application/xml" -> IF D_XmlCaseEmpty THEN AutoLoop(l, i + 1) ELSE "xml"
         [] l[i] = "text/xml" -> "xml"
         [] OTHER -> AutoLoop(l, i + 1)
NegotiateOp(accepts) == AutoLoop(IF accepts = <<>> THEN <<"text/plain">> ELSE accepts, 1)
=============================================================================
