--------------------------- MODULE RuxRouterCache ---------------------------
(***************************************************************************)
(* The router serving requests with the LRU cache of matched dynamic       *)
(* routes between the stable tier and the dynamic tiers (parse_match.go    *)
(* match / cacheDynamicRoute / findAllowedMethods).  Properties C07        *)
(* (transparency) and C14, second sentence (repeats are served from the    *)
(* cache).                                                                 *)
(*                                                                         *)
(* Registration happens first (Register steps consume `todo`); afterwards  *)
(* every Request(m, q) threads the cache through the same sequence of      *)
(* match() calls QuickMatch performs: direct, HEAD->GET, and - when 405    *)
(* handling is on - one probe per other method in anyMethods order.        *)
(***************************************************************************)
EXTENDS RuxResolve, RuxLRU

CONSTANTS Caps,                    \* cache capacities explored (CachingWithNum)
          D_CacheKeyFirstSegment,  \* F16: regular-tier matches are stored under method+first segment
          D_CacheKeyNoMethod,      \* deviation: the cache key is the path only
          D_CacheSkipsStable       \* deviation: the cache is consulted before the stable tier

VARIABLES todo,     \* routes still to register: sequence of [p, ms]
          cap, cache,
          last      \* observation of the last request: [m, q, res, hit, keys]
cvars == <<rvars, todo, cap, cache, last>>

Key(m, q)   == IF D_CacheKeyNoMethod THEN <<"*", q>> ELSE <<m, q>>
\* which tier answers when neither the stable tier nor the cache does
RegularHit(m, q) ==
  LET p == PathSeq[q]  key == ReqFirst(p) IN
  { y \in 1..Len(regular) : /\ key # <<>> /\ regular[y].m = m /\ regular[y].first = key
                            /\ IsPrefixOf(StartOf(PatOf(regular[y].r)), p) /\ M(tbl[regular[y].r].p, q) }
StableHit(m, q) == { e \in stable : e.m = m /\ e.path = PathSeq[q] }

\* one call of Router.match with the cache c: returns the route and the cache afterwards
MatchStep(c, m, q) ==
  IF ~D_CacheSkipsStable /\ StableHit(m, q) # {} THEN [r |-> (CHOOSE e \in StableHit(m, q) : TRUE).r, c |-> c, hit |-> FALSE]
  ELSE IF Has(c, Key(m, q)) THEN [r |-> ValOf(c, Key(m, q)), c |-> LGet(c, Key(m, q)), hit |-> TRUE]
  ELSE IF StableHit(m, q) # {} THEN [r |-> (CHOOSE e \in StableHit(m, q) : TRUE).r, c |-> c, hit |-> FALSE]
  ELSE LET d == Lookup(m, q) IN
       IF d = 0 THEN [r |-> 0, c |-> c, hit |-> FALSE]
       ELSE LET k == IF D_CacheKeyFirstSegment /\ RegularHit(m, q) # {}
                     THEN <<m, 0 - MinOf(RegularHit(m, q))>>     \* a key outside the method+path key space
                     ELSE Key(m, q)
            IN [r |-> d, c |-> LSet(c, cap, k, d), hit |-> FALSE]

\* findAllowedMethods: probe every other method in anyMethods order, threading the cache
RECURSIVE ProbeAllowed(_, _, _, _)
ProbeAllowed(c, m, q, i) ==
  IF i > 9 THEN [allow |-> {}, c |-> c]
  ELSE IF Nine[i] = m THEN ProbeAllowed(c, m, q, i + 1)
  ELSE LET s == MatchStep(c, Nine[i], q)
           rest == ProbeAllowed(s.c, m, q, i + 1)
       IN [allow |-> (IF s.r # 0 THEN {Nine[i]} ELSE {}) \cup rest.allow, c |-> rest.c]

QuickMatchC(c0, m, q0) ==
  LET q  == EffQ(q0, FALSE)
      s1 == MatchStep(c0, m, q) IN
  IF s1.r # 0 THEN [res |-> RouteRes(s1.r, "direct"), c |-> s1.c, hit |-> s1.hit]
  ELSE LET s2 == IF m = "HEAD" THEN MatchStep(s1.c, "GET", q) ELSE [r |-> 0, c |-> s1.c, hit |-> FALSE] IN
       IF s2.r # 0 THEN [res |-> RouteRes(s2.r, "head"), c |-> s2.c, hit |-> s2.hit]
       ELSE IF opts.hfb /\ StarRoutes(m) # {} THEN [res |-> RouteRes((CHOOSE e \in StarRoutes(m) : TRUE).r, "fallback"), c |-> s2.c, hit |-> FALSE]
       ELSE IF opts.hmna
            THEN LET pr == ProbeAllowed(s2.c, m, q, 1) IN
                 IF pr.allow # {} THEN [res |-> [kind |-> "notallowed", r |-> 0, via |-> "none", allow |-> pr.allow], c |-> pr.c, hit |-> FALSE]
                 ELSE [res |-> NotFound, c |-> pr.c, hit |-> FALSE]
            ELSE [res |-> NotFound, c |-> s2.c, hit |-> FALSE]

CacheInit(table, options) ==
  /\ IndexInit /\ opts = options /\ todo = table
  /\ cap \in Caps /\ cache = <<>> /\ last = [m |-> "-", q |-> 0]

RegStep == /\ todo # <<>>
           /\ Register(Head(todo).p, Head(todo).ms)
           /\ todo' = Tail(todo)
           /\ UNCHANGED <<opts, cap, cache, last>>

Request(m, q) ==
  /\ todo = <<>>
  /\ LET x == QuickMatchC(cache, m, q) IN
     /\ cache' = x.c
     /\ last' = [m |-> m, q |-> q, res |-> x.res, hit |-> x.hit, keys |-> KeysOf(x.c)]
  /\ UNCHANGED <<ivars, opts, todo, cap>>

\* The observation `last` is an output variable that MC instances hide with a VIEW, so everything that speaks
\* about it is an ACTION property (evaluated on every explored transition), never a state invariant.
\* tbl/opts/cap do not change while serving, so only last and cache are primed.
Serving == todo = <<>> /\ todo' = <<>> /\ last'.q # 0
\* ---- C07: the cache never changes what a request observes -------------------------------
TransparentA == Serving => last'.res = Resolve(last'.m, last'.q)
\* ---- C14 (2nd sentence): after a request resolved by a dynamic route under method m2, the entry
\*      <<m2, path>> is present, so the immediate repeat is answered from the cache
ResolvedMethod(l) == IF l.res.via = "head" THEN "GET" ELSE l.m
FilledAfterDynamicA ==
  (Serving /\ last'.res.kind = "route" /\ last'.res.via \in {"direct", "head"} /\ ~IsStatic(PatOf(last'.res.r)) /\ cap >= 1)
     => Has(cache', <<ResolvedMethod(last'), EffQ(last'.q, FALSE)>>)
RepeatHitsA ==
  (Serving /\ last'.res.kind = "route" /\ last'.res.via = "direct" /\ ~IsStatic(PatOf(last'.res.r)) /\ cap >= 1)
     => QuickMatchC(cache', last'.m, last'.q).hit
Transparent        == [][TransparentA]_cvars
FilledAfterDynamic == [][FilledAfterDynamicA]_cvars
RepeatHits         == [][RepeatHitsA]_cvars
CacheBounded == Len(cache) <= cap
CacheSound == \A i \in 1..Len(cache) : \* every entry maps a (method, path) to the route selection without cache
   LET k == cache[i].k IN (k[1] \in NineSet /\ k[2] > 0) => cache[i].v = Select(k[1], k[2])
=============================================================================
