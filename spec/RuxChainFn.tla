------------------------------ MODULE RuxChainFn ------------------------------
(***************************************************************************)
(* The pure part of RuxChain (no variables): writer functions, ideal machine,  *)
(* ideal dispatch.  RuxChain adds the cursor machine; Rux instantiates this     *)
(* module for the composition.                                              *)
(*                                                                         *)
(* One request running its handler chain: Context.Next / Abort / IsAborted *)
(* (context.go), the lazy header-committing responseWriter                 *)
(* (response_wirter.go) and the panic / error hooks of handleHTTPRequest   *)
(* (dispatch.go).  Properties C04, C05, C08, C09.                          *)
(*                                                                         *)
(* A chain is a sequence of handler scripts; a script is a sequence of ops *)
(*   <<"in">> <<"out">>           log entry + probe of IsAborted()         *)
(*   <<"next">>                   c.Next()                                 *)
(*   <<"abort">>                  c.Abort()                                *)
(*   <<"abortStatus", code>>      c.AbortWithStatus(code)                  *)
(*   <<"status", code>>           c.SetStatus(code)                        *)
(*   <<"write", n, mode>>         c.Resp.Write(n bytes); mode = how the    *)
(*                                underlying writer replies: full|short|err*)
(*   <<"flush">>                  c.Resp.(http.Flusher).Flush()            *)
(*   <<"httpError", code, n>>     http.Error(c.Resp, n-1 byte msg, code)   *)
(*   <<"err">>                    c.AddError(e)                            *)
(*   <<"panic">>                  panic(v)                                 *)
(*   <<"redispatch", b>>          r.HandleContext(c) from the LAST handler *)
(*                                of a chain: Reset(), then a complete     *)
(*                                dispatch of the handlers b+1.. on the    *)
(*                                same context and the same writer         *)
(*   <<"catchnext">>              handlers.PanicsHandler(): c.Next() under *)
(*                                a deferred recover that sets status 500  *)
(*   <<"nextdefer", code>>        c.Next() with a deferred                 *)
(*                                c.Resp.WriteHeader(code) that also runs  *)
(*                                while a panic unwinds (handlers.Timeout  *)
(*                                after its deadline)                      *)
(*   <<"subrouter", chain2>>      rux.WrapHTTPHandler(api)(c) where api is   *)
(*                                ANOTHER router whose chain for the request *)
(*                                is chain2: a complete nested dispatch on a *)
(*                                fresh context of api, whose underlying     *)
(*                                writer is the lazy writer of this context  *)
(*   <<"lib", name>>              a middleware of pkg/handlers called in   *)
(*                                place; LibOps gives its meaning in the   *)
(*                                ops above (ExpandChain), the harness     *)
(*                                calls the real function                  *)
(*                                                                         *)
(* IDEAL machine (declarative, a recursive function): what the statements  *)
(* promise - onion order, each handler at most once, nothing new after an  *)
(* abort, suspended frames finish, a panic stops everything.               *)
(* CURSOR machine (operational, a step machine): Context.Next as written,  *)
(* with the int8 cursor, the sentinel abortIndex and wrap-around.          *)
(* TLC checks that every run of the cursor machine produces a prefix of,   *)
(* and finally exactly, the ideal log, never crashes, and that the writer  *)
(* log satisfies OneCommit.                                                *)
(***************************************************************************)
EXTENDS Integers, Sequences, FiniteSets, SequencesExt, TLC

CONSTANTS MaxInt,          \* 127 for int8
          AbortIdx,        \* abortIndex = 63
          D_NextCreeps,    \* F8: Next() as found: `c.index++` on entry and after every handler
          D_FlushNoCommit, \* F10: Flush() does not commit the header first
          D_PanicNoCommit  \* F11: the recover path skips the end-of-dispatch commit

Wrap(x) == IF x > MaxInt THEN x - 2 * (MaxInt + 1) ELSE x        \* two's complement increment overflow
Cast(n) == LET m == n % (2 * (MaxInt + 1)) IN IF m > MaxInt THEN m - 2 * (MaxInt + 1) ELSE m   \* int8(len)

-----------------------------------------------------------------------------
(* the response writer as pure functions over w = [status, committed, length, under] *)
W0 == [status |-> 0, committed |-> FALSE, length |-> -1, under |-> <<>>]
Accepted(n, mode) == CASE mode = "full" -> n [] mode = "short" -> (IF n > 0 THEN n - 1 ELSE 0) [] mode = "err" -> 0
WHeader(w, c) == IF c > 0 /\ w.status # c THEN [w EXCEPT !.status = c] ELSE w
WEnsure(w)    == IF w.committed THEN w
                 ELSE LET st == IF w.status = 0 THEN 200 ELSE w.status IN
                      [status |-> st, committed |-> TRUE, length |-> 0, under |-> Append(w.under, <<"WH", st>>)]
WWrite(w, n, mode) == LET w1 == WEnsure(w) IN
                      [w1 EXCEPT !.length = @ + Accepted(n, mode), !.under = Append(@, <<"W", n, Accepted(n, mode)>>)]
WFlush(w)     == LET w1 == IF D_FlushNoCommit THEN w ELSE WEnsure(w) IN [w1 EXCEPT !.under = Append(@, <<"FL">>)]
WError(w, c, n) == WWrite(WHeader(w, c), n, "full")      \* http.Error: WriteHeader(code); Fprintln(msg)

IsWriterOp(op) == op[1] \in {"status", "write", "flush", "httpError", "abortStatus"}
ApplyW(w, op) == CASE op[1] = "status"      -> WHeader(w, op[2])
                   [] op[1] = "abortStatus" -> WHeader(w, op[2])
                   [] op[1] = "write"       -> WWrite(w, op[2], op[3])
                   [] op[1] = "flush"       -> WFlush(w)
                   [] op[1] = "httpError"   -> WError(w, op[2], op[3])
                   [] OTHER                 -> w

\* the calls a lazy writer passed to the writer below it, read as ops on that writer (full writes only)
UnderAsOps(u) == [i \in 1..Len(u) |-> CASE u[i][1] = "WH" -> <<"status", u[i][2]>>
                                         [] u[i][1] = "W"  -> <<"write", u[i][2], "full">>
                                         [] u[i][1] = "FL" -> <<"flush">>]
RECURSIVE ApplySeqFrom(_, _, _)
ApplySeqFrom(w, ops, i) == IF i > Len(ops) THEN w ELSE ApplySeqFrom(ApplyW(w, ops[i]), ops, i + 1)
ApplySeq(w, ops) == ApplySeqFrom(w, ops, 1)

(* C08, declarative: computed from the sequence of writer ops the handlers executed, not from the writer *)
Commits(op)   == op[1] \in {"write", "flush", "httpError", "commit"}      \* "commit": the end-of-dispatch commit of a nested dispatch
Emits(op)     == op[1] \in {"write", "flush", "httpError"}
StatusArg(op) == IF op[1] \in {"status", "abortStatus", "httpError"} THEN op[2] ELSE 0
RECURSIVE ExpStatus(_, _, _)
ExpStatus(wops, i, cur) ==            \* last positive status set before the first write or flush (200 if none)
  IF i > Len(wops) THEN (IF cur = 0 THEN 200 ELSE cur)
  ELSE LET c == StatusArg(wops[i])  cur2 == IF c > 0 THEN c ELSE cur IN
       IF Commits(wops[i]) THEN (IF cur2 = 0 THEN 200 ELSE cur2) ELSE ExpStatus(wops, i + 1, cur2)
BodyOps(wops) == SelectSeq(wops, LAMBDA op : Emits(op))
ExpUnderOf(op) == CASE op[1] = "write" -> <<"W", op[2], Accepted(op[2], op[3])>>
                    [] op[1] = "httpError" -> <<"W", op[3], op[3]>>
                    [] op[1] = "flush" -> <<"FL">>
ExpUnder(wops) == << <<"WH", ExpStatus(wops, 1, 0)>> >> \o [i \in 1..Len(BodyOps(wops)) |-> ExpUnderOf(BodyOps(wops)[i])]
RECURSIVE SumAcc(_, _)
SumAcc(u, i) == IF i > Len(u) THEN 0 ELSE (IF u[i][1] = "W" THEN u[i][3] ELSE 0) + SumAcc(u, i + 1)
\* exactly one WriteHeader, first, with the right code; body = accepted bytes in order; Length = their number
OneCommit(w, wops) == w.committed /\ w.under = ExpUnder(wops) /\ w.length = SumAcc(w.under, 1)

-----------------------------------------------------------------------------
(* pkg/handlers/middlewares.go in terms of the primitive ops *)
LibNames == {"favicon-hit", "favicon-miss", "basicauth-none", "basicauth-bad", "basicauth-ok", "timeout-fired", "timeout-idle"}
LibOps(name) ==
  CASE name = "favicon-hit"    -> << <<"abort">>, <<"status", 204>> >>         \* IgnoreFavIcon: c.AbortThen().NoContent()
    [] name = "favicon-miss"   -> <<>>
    [] name = "basicauth-none" -> << <<"httpError", 401, 13>>, <<"abort">> >>  \* AbortWithStatus(401, "Unauthorized")
    [] name = "basicauth-bad"  -> << <<"abortStatus", 403>> >>                 \* AbortWithStatus(403); the handler then goes on to c.Set
    [] name = "basicauth-ok"   -> <<>>
    [] name = "timeout-fired"  -> << <<"nextdefer", 504>> >>                   \* Timeout(d): c.Next(); deferred: deadline exceeded -> WriteHeader(504)
    [] name = "timeout-idle"   -> << <<"next">> >>
    \* the response helpers of Context: each records ITS status (200 included) and then writes
    [] name = "text200"        -> << <<"status", 200>>, <<"write", 3, "full">> >>  \* c.Text(200, "abc")
    [] name = "html200-empty"  -> << <<"status", 200>> >>                          \* c.HTML(200, nil): headers only
    [] name = "json201"        -> << <<"status", 201>>, <<"write", 8, "full">> >>  \* c.JSON(201, M{"a": 1}): one Write of the encoder
    [] name = "jsonbytes200"   -> << <<"status", 200>>, <<"write", 2, "full">> >>  \* c.JSONBytes(200, "{}")
    [] name = "nocontent"      -> << <<"status", 204>> >>                          \* c.NoContent()
ExpandScript(s) == FlattenSeq([i \in 1..Len(s) |-> IF s[i][1] = "lib" THEN LibOps(s[i][2]) ELSE <<s[i]>>])
ExpandChain(c)  == [i \in 1..Len(c) |-> ExpandScript(c[i])]

-----------------------------------------------------------------------------
None == << <<"nohandler">> >>      \* no OnError / OnPanic handler installed (distinct from the empty script)
(* IDEAL machine: st = [started, ab, pan, log, w, wops, errs] *)
St0 == [started |-> 0, ab |-> FALSE, pan |-> FALSE, log |-> <<>>, w |-> W0, wops |-> <<>>, errs |-> 0]

RECURSIVE IRunNext(_, _), IRunHandler(_, _, _, _), RunExtra(_, _)
IRunNext(chain, st) ==
  IF st.pan \/ st.ab \/ st.started >= Len(chain) THEN st
  ELSE IRunNext(chain, IRunHandler(chain, [st EXCEPT !.started = @ + 1], st.started + 1, 1))
IRunHandler(chain, st, h, pc) ==
  IF st.pan \/ pc > Len(chain[h]) THEN st
  ELSE LET op == chain[h][pc] IN
       CASE op[1] = "in"    -> IRunHandler(chain, [st EXCEPT !.log = Append(@, <<"in", h, st.ab>>)], h, pc + 1)
         [] op[1] = "out"   -> IRunHandler(chain, [st EXCEPT !.log = Append(@, <<"out", h, st.ab>>)], h, pc + 1)
         [] op[1] = "next"  -> IRunHandler(chain, IRunNext(chain, st), h, pc + 1)
         [] op[1] = "redispatch" ->
              \* Context.Reset clears cursor, abort mark and errors but NOT the writer; the nested dispatch ends with its own
              \* end-of-dispatch commit; the cursor it leaves behind ends the outer loop (or carries an abort mark)
              \* op[3] (optional): the OnPanic hook of the router that dispatches (HandleContext has its own recover): a panic
              \* in the nested chain is handled THERE - hook, commit - and the calling handler goes on as if nothing happened
              LET r  == IRunNext(chain, [st EXCEPT !.started = op[2], !.ab = FALSE, !.errs = 0])
                  hk == IF Len(op) >= 3 THEN op[3] ELSE None
                  \* (the cursor the aborted nested dispatch leaves behind is past the calling chain when the caller is its last
                  \* handler - the instances keep to that case - so nothing more is started)
                  rh == IF r.pan /\ hk # None THEN [RunExtra(r, hk) EXCEPT !.pan = FALSE, !.started = Len(chain)] ELSE r IN
              IRunHandler(chain, IF rh.pan THEN rh ELSE [rh EXCEPT !.w = WEnsure(@), !.wops = Append(@, <<"commit">>)], h, pc + 1)
         [] op[1] = "catchnext" ->      \* a panic below is recovered here: status 500, this handler goes on; the handlers
                                        \* after the panicking one are still started by the enclosing loop
              LET r == IRunNext(chain, st) IN
              IRunHandler(chain, IF r.pan THEN [r EXCEPT !.pan = FALSE, !.w = WHeader(@, 500), !.wops = Append(@, <<"status", 500>>)] ELSE r, h, pc + 1)
         [] op[1] = "nextdefer" ->      \* the deferred WriteHeader runs whether or not the handlers below panicked
              LET r  == IRunNext(chain, st)
                  r2 == [r EXCEPT !.w = WHeader(@, op[2]), !.wops = Append(@, <<"status", op[2]>>)] IN
              IF r.pan THEN r2 ELSE IRunHandler(chain, r2, h, pc + 1)
         [] op[1] = "subrouter" ->
              \* the mounted router has its own context (cursor, abort mark, errors) and its own lazy writer on top of ours:
              \* what its writer passes down arrives at our writer as WriteHeader / Write / Flush calls
              LET sub  == IRunNext(op[2], [St0 EXCEPT !.log = <<>>])
                  subw == IF sub.pan THEN sub.w ELSE WEnsure(sub.w)                   \* its end-of-dispatch commit
                  ops2 == UnderAsOps(subw.under)
                  lg   == st.log \o [i \in 1..Len(sub.log) |-> <<sub.log[i][1], 100 + sub.log[i][2], sub.log[i][3]>>]
                  st2  == [st EXCEPT !.log = lg, !.w = ApplySeq(@, ops2), !.wops = @ \o ops2]
              IN IF sub.pan THEN [st2 EXCEPT !.pan = TRUE]          \* (no hook on the mounted router: its panic travels up through us)
                 ELSE IRunHandler(chain, st2, h, pc + 1)
         [] op[1] = "abort" -> IRunHandler(chain, [st EXCEPT !.ab = TRUE], h, pc + 1)
         [] op[1] = "abortStatus" -> IRunHandler(chain, [st EXCEPT !.ab = TRUE, !.w = ApplyW(@, op), !.wops = Append(@, op)], h, pc + 1)
         [] op[1] = "err"   -> IRunHandler(chain, [st EXCEPT !.errs = @ + 1], h, pc + 1)
         [] op[1] = "panic" -> [st EXCEPT !.pan = TRUE]
         [] OTHER           -> IRunHandler(chain, [st EXCEPT !.w = ApplyW(@, op), !.wops = Append(@, op)], h, pc + 1)

\* a hook / OnError script is a handler outside the chain (logged as handler 0); it cannot call next
RunExtra(st, script) == LET c2 == <<script>>
                            r  == IRunHandler(c2, [st EXCEPT !.pan = FALSE, !.log = <<>>], 1, 1)
                        IN [r EXCEPT !.log = st.log \o [i \in 1..Len(r.log) |-> <<r.log[i][1], 0, r.log[i][3]>>]]

\* the whole dispatch: chain, then OnError (if errors and a handler is installed), then the end-of-dispatch commit;
\* with a panic: the hook (if installed) and then the commit, otherwise the panic escapes and nothing is committed
IdealDispatch(chain, onerror, hook) ==
  LET r1 == IRunNext(chain, St0)
      r2 == IF ~r1.pan /\ r1.errs > 0 /\ onerror # None THEN RunExtra(r1, onerror) ELSE r1
  IN IF ~r2.pan THEN [r2 EXCEPT !.w = WEnsure(@)] @@ [escaped |-> FALSE, hooked |-> FALSE]
     ELSE IF hook = None THEN r2 @@ [escaped |-> TRUE, hooked |-> FALSE]
     ELSE LET r3 == RunExtra(r2, hook) IN
          [r3 EXCEPT !.w = IF D_PanicNoCommit THEN @ ELSE WEnsure(@), !.pan = TRUE] @@ [escaped |-> r3.pan, hooked |-> TRUE]
=============================================================================
