"""Orchestrator library: TLC runner, harness builder/runner, evidence, known findings.

Verdict policy (DESIGN.md section 1):
  exit 0  every compared observable agreed / every trace accepted (KNOWN-FINDING lines allowed)
  exit 1  the real code produced an observable the specification forbids -> VIOLATION line
  exit 2  inconclusive: build failure, TLC crash/timeout, dead driver, spec-only counterexample
"""
import hashlib
import json
import os
import re
import shutil
import subprocess
import sys
import time

VERIF = os.path.dirname(os.path.dirname(os.path.abspath(__file__)))
SPEC = os.path.join(VERIF, "spec")
OUT = os.path.join(VERIF, "out")
REPO = os.environ.get("VERIF_REPO", "/repo")
GOENV = dict(GOFLAGS="-mod=mod", GOPROXY="off", GOSUMDB="off", GOTOOLCHAIN="local")
NCPU = os.cpu_count() or 4


class Inconclusive(Exception):
    pass


def log(*a):
    print(*a, flush=True)


# ------------------------------------------------------------------------------------------------
# scratch
# ------------------------------------------------------------------------------------------------
_scratch = None


def scratch():
    global _scratch
    if _scratch is None:
        _scratch = os.path.join(OUT, "run-%d" % os.getpid())
        shutil.rmtree(_scratch, ignore_errors=True)
        os.makedirs(_scratch)
    return _scratch


def cleanup():
    global _scratch
    if _scratch and not os.environ.get("VERIF_KEEP"):
        shutil.rmtree(_scratch, ignore_errors=True)
    _scratch = None


# ------------------------------------------------------------------------------------------------
# TLC
# ------------------------------------------------------------------------------------------------
class TLCResult:
    def __init__(self):
        self.generated = 0
        self.distinct = 0
        self.depth = 0
        self.seconds = 0.0
        self.lines = []        # decoded JSON objects printed by the spec (PrintT(ToJson(..)))
        self.violated = None   # name of violated invariant / property, or "deadlock", "error"
        self.error_text = ""
        self.raw_tail = ""
        self.config = ""
        self.exit = 0
        self.coverage_zero = []

    def ok(self):
        return self.violated is None and self.exit == 0

    def summary(self):
        return dict(config=self.config, generated=self.generated, distinct=self.distinct,
                    depth=self.depth, seconds=round(self.seconds, 2), exported=len(self.lines),
                    violated=self.violated)


_tlc_n = 0


def run_tlc(module, cfg_text=None, cfg_file=None, workers=None, timeout=600, env=None,
            simulate=None, depth=None, seed=None, keep_lines=True, line_cb=None, extra_files=(),
            coverage=False, expect_fail=False):
    """Run TLC on spec/<module>.tla (searched in spec/, spec/mc, spec/trace, spec/neg).

    cfg_text: the .cfg content (generated per run), or cfg_file: path relative to spec/.
    Returns TLCResult. Raises Inconclusive on timeout / crash.
    """
    global _tlc_n
    _tlc_n += 1
    d = os.path.join(scratch(), "tlc%d" % _tlc_n)
    os.makedirs(d)
    for sub in ("", "mc", "trace", "neg"):
        sd = os.path.join(SPEC, sub)
        if os.path.isdir(sd):
            for f in os.listdir(sd):
                if f.endswith(".tla"):
                    shutil.copy(os.path.join(sd, f), d)
    for f in extra_files:
        shutil.copy(f, d)  # generated modules override the defaults
    cfgp = os.path.join(d, module + ".cfg")
    if cfg_text is not None:
        open(cfgp, "w").write(cfg_text)
    elif cfg_file is not None:
        shutil.copy(os.path.join(SPEC, cfg_file), cfgp)
    w = workers or NCPU
    cmd = ["timeout", str(int(timeout)), "java", "-XX:+UseParallelGC", "-Xss64m",
           "-cp", "/opt/veriftools/tla/tla2tools.jar:/opt/veriftools/tla/CommunityModules-deps.jar",
           "tlc2.TLC", "-workers", str(w), "-metadir", os.path.join(d, "meta"),
           "-noGenerateSpecTE", "-config", module + ".cfg"]
    if simulate:
        cmd += ["-simulate", simulate]
    if depth:
        cmd += ["-depth", str(depth)]
    if seed is not None:
        cmd += ["-seed", str(seed)]
    if coverage:
        cmd += ["-coverage", "1"]
    cmd += [module + ".tla"]
    e = dict(os.environ)
    if env:
        e.update({k: str(v) for k, v in env.items()})
    res = TLCResult()
    res.config = module
    t0 = time.time()
    outp = os.path.join(d, "tlc.out")
    with open(outp, "w") as fo:
        p = subprocess.run(cmd, cwd=d, env=e, stdout=fo, stderr=subprocess.STDOUT)
    res.seconds = time.time() - t0
    res.exit = p.returncode
    tail = []
    err = []
    in_err = False
    with open(outp, errors="replace") as fi:
        for ln in fi:
            ln = ln.rstrip("\n")
            if ln.startswith('"{') or ln.startswith('"['):
                try:
                    obj = json.loads(json.loads(ln))
                except Exception:
                    continue
                if line_cb:
                    line_cb(obj)
                if keep_lines:
                    res.lines.append(obj)
                continue
            tail.append(ln)
            if len(tail) > 60:
                tail.pop(0)
            m = re.search(r"(\d+) states generated, (\d+) distinct states found", ln)
            if m:
                res.generated, res.distinct = int(m.group(1)), int(m.group(2))
            m = re.search(r"depth of the complete state graph search is (\d+)", ln)
            if m:
                res.depth = int(m.group(1))
            m = re.search(r"Error: Invariant (\S+) is violated", ln)
            if m:
                res.violated = m.group(1)
            m = re.search(r"Error: Action property (\S+) is violated", ln)
            if m:
                res.violated = m.group(1)
            if "Error: Temporal properties were violated" in ln:
                res.violated = "temporal"
            if "Error: Deadlock reached" in ln:
                res.violated = "deadlock"
            if ln.startswith("Error:") and res.violated is None:
                in_err = True
                res.violated = "error"
            if in_err and len(err) < 30:
                err.append(ln)
            m = re.match(r"<(\w+) line .*>: (\d+):(\d+)$", ln.strip())
            if m and coverage and m.group(2) == "0" and m.group(3) == "0":
                res.coverage_zero.append(m.group(1))
    res.raw_tail = "\n".join(tail[-40:])
    res.error_text = "\n".join(err)
    if p.returncode == 124:
        raise Inconclusive("TLC timeout after %ss on %s" % (timeout, module))
    if res.violated == "error" and not expect_fail:
        raise Inconclusive("TLC error on %s:\n%s\n%s" % (module, res.error_text, res.raw_tail))
    if p.returncode != 0 and res.violated is None:
        raise Inconclusive("TLC exit %d on %s:\n%s" % (p.returncode, module, res.raw_tail))
    if not os.environ.get("VERIF_KEEP"):
        shutil.rmtree(d, ignore_errors=True)
    return res


def cfg(init="Init", next="Next", spec=None, constants=None, invariants=(), properties=(), view=None,
        action_constraints=(), constraints=(), deadlock=False, postcondition=None, symmetry=None):
    out = []
    if spec:
        out.append("SPECIFICATION %s" % spec)
    else:
        out.append("INIT %s" % init)
        out.append("NEXT %s" % next)
    if constants:
        out.append("CONSTANTS")
        for k, v in constants.items():
            if isinstance(v, Sub):
                out.append("  %s <- %s" % (k, v.name))
            else:
                out.append("  %s = %s" % (k, tla(v)))
    for i in invariants:
        out.append("INVARIANT %s" % i)
    for i in properties:
        out.append("PROPERTY %s" % i)
    if view:
        out.append("VIEW %s" % view)
    for a in action_constraints:
        out.append("ACTION_CONSTRAINT %s" % a)
    for a in constraints:
        out.append("CONSTRAINT %s" % a)
    if postcondition:
        out.append("POSTCONDITION %s" % postcondition)
    out.append("CHECK_DEADLOCK %s" % ("TRUE" if deadlock else "FALSE"))
    return "\n".join(out) + "\n"


class SetOfSets:
    def __init__(self, sets):
        self.sets = sets


class Sub:
    """cfg substitution  Const <- OperatorDefinedInTheModel  (sequences/records cannot be written in a cfg)."""
    def __init__(self, name):
        self.name = name


def tla(v):
    """Python value -> TLA+ constant expression usable in a cfg file."""
    if isinstance(v, bool):
        return "TRUE" if v else "FALSE"
    if isinstance(v, int):
        return str(v)
    if isinstance(v, str):
        return '"%s"' % v
    if isinstance(v, (set, frozenset)):
        return "{" + ", ".join(sorted(tla(x) for x in v)) + "}"
    if isinstance(v, SetOfSets):
        return "{" + ", ".join(tla(set(x)) for x in v.sets) + "}"
    if isinstance(v, (list, tuple)):
        return "<<" + ", ".join(tla(x) for x in v) + ">>"
    raise ValueError(v)


# ------------------------------------------------------------------------------------------------
# Go harness
# ------------------------------------------------------------------------------------------------
_built = {}


def go_env():
    e = dict(os.environ)
    e.update(GOENV)
    return e


def build_harness(race=False):
    """(Re)build the harness against REPO's current working tree with -tags verif."""
    key = "race" if race else "plain"
    if key in _built:
        return _built[key]
    bdir = os.path.join(OUT, "build")
    os.makedirs(bdir, exist_ok=True)
    os.makedirs(os.path.join(OUT, "bin"), exist_ok=True)
    # per process: concurrent checks may be building against different trees (VERIF_REPO)
    modfile = os.path.join(bdir, "ruxh-%d.mod" % os.getpid())
    src = open(os.path.join(VERIF, "harness", "go.mod.tmpl")).read().replace("@REPO@", REPO)
    open(modfile, "w").write(src)
    shutil.copy(os.path.join(REPO, "go.sum"), modfile[:-4] + ".sum")
    binp = os.path.join(OUT, "bin", "ruxh-" + key + ("-%d" % os.getpid()))
    cmd = ["go", "build", "-modfile=" + modfile, "-tags", "verif", "-o", binp]
    if race:
        cmd.append("-race")
    cmd.append("./cmd/ruxh")
    t0 = time.time()
    p = subprocess.run(cmd, cwd=os.path.join(VERIF, "harness"), env=go_env(), stdout=subprocess.PIPE,
                       stderr=subprocess.STDOUT, text=True)
    for f in (modfile, modfile[:-4] + ".sum"):
        try:
            os.remove(f)
        except OSError:
            pass
    if p.returncode != 0:
        raise Inconclusive("harness build failed (tag verif, repo %s):\n%s" % (REPO, p.stdout[-3000:]))
    log("  built harness (%s) in %.1fs" % (key, time.time() - t0))
    _built[key] = binp
    return binp


def remove_built():
    for b in _built.values():
        try:
            os.remove(b)
        except OSError:
            pass
    _built.clear()


def run_harness(args, race=False, timeout=900, env=None, stdin_path=None, ok_codes=(0,), crash_ok=False):
    """Run the harness; it prints exactly one JSON summary object on its last stdout line."""
    binp = build_harness(race)
    e = go_env()
    if env:
        e.update({k: str(v) for k, v in env.items()})
    try:
        p = subprocess.run([binp] + [str(a) for a in args], env=e, stdout=subprocess.PIPE,
                           stderr=subprocess.PIPE, text=True, timeout=timeout, errors="replace")
    except subprocess.TimeoutExpired:
        raise Inconclusive("harness timeout: %s" % " ".join(map(str, args)))
    if crash_ok and p.returncode == 2 and "fatal error:" in p.stderr:
        # the Go runtime killed the process (eg "concurrent map read and map write"): not a harness failure
        return dict(_crashed=True, _stderr=p.stderr, _code=2, cases=0, compared=0, mismatches=[], mismatch_count=0, info={})
    if p.returncode not in ok_codes:
        raise Inconclusive("harness exit %d: %s\nstderr: %s\nstdout: %s" % (
            p.returncode, " ".join(map(str, args)), p.stderr[-3000:], p.stdout[-1000:]))
    last = p.stdout.strip().splitlines()[-1] if p.stdout.strip() else ""
    try:
        out = json.loads(last)
    except Exception:
        raise Inconclusive("harness printed no summary: %s\n%s\n%s" % (" ".join(map(str, args)), p.stdout[-1500:], p.stderr[-1500:]))
    out["_stderr"] = p.stderr
    out["_code"] = p.returncode
    return out


def write_ndjson(path, objs):
    with open(path, "w") as f:
        for o in objs:
            f.write(json.dumps(o, separators=(",", ":")))
            f.write("\n")


def read_ndjson(path):
    out = []
    with open(path) as f:
        for ln in f:
            ln = ln.strip()
            if ln:
                out.append(json.loads(ln))
    return out


# ------------------------------------------------------------------------------------------------
# known findings
# ------------------------------------------------------------------------------------------------
def load_findings():
    p = os.path.join(VERIF, "known_findings.json")
    if not os.path.exists(p):
        return []
    return json.load(open(p))["findings"]


# predicates over canonical violation descriptors (dicts). Closed set; see DESIGN.md section 3.
def _pred_chain_longer_than_sentinel(d, args):
    # the deviation from the ideal is the known one only if the code did exactly what the cursor machine (the model of
    # Context.Next as written, with the real int8 / sentinel constants) predicts for that chain
    return d.get("kind") == "chain" and d.get("chain_len", 0) >= args.get("min_len", 65) and \
        d.get("aspect") in ("enter", "probe", "log") and d.get("as_cursor_machine") is True


PREDICATES = {
    "chain_longer_than_sentinel": _pred_chain_longer_than_sentinel,
}


def match_finding(prop, desc):
    for f in load_findings():
        if f.get("status") != "known" or f.get("property") != prop:
            continue
        fn = PREDICATES.get(f.get("predicate"))
        if fn and fn(desc, f.get("args", {})):
            return f
    return None


# ------------------------------------------------------------------------------------------------
# check context: collects results, writes evidence, prints verdict lines
# ------------------------------------------------------------------------------------------------
class Check:
    def __init__(self, prop, tier, seed):
        self.prop = prop
        self.tier = tier
        self.seed = seed
        self.t0 = time.time()
        self.tlc_runs = []
        self.states = 0
        self.transitions = 0
        self.traces = 0
        self.samples = []
        self.violations = []   # (descriptor, replay_case)
        self.known_hits = []
        self.extra = {}
        self.assumptions = []
        self.evaluations = 0
        self.exhaustive = False
        self.level = "model_checking"
        self.neg = []

    # -- bookkeeping ------------------------------------------------------------------------
    def add_tlc(self, res, note=None):
        s = res.summary()
        if note:
            s["note"] = note
        self.tlc_runs.append(s)
        self.states += res.distinct
        self.transitions += res.generated

    def sample(self, obj, limit=6):
        if len(self.samples) < limit:
            self.samples.append(obj)

    def expect_holds(self, res, what):
        """O1: TLC must not find a counterexample in the specification itself."""
        if res.violated is not None:
            raise Inconclusive("spec-defect: %s violated in %s (%s)\n%s" % (res.violated, res.config, what, res.raw_tail[-1500:]))

    def expect_fails(self, res, what, inv=None):
        """Non-vacuity: a deviation switch must make TLC produce a counterexample."""
        okv = res.violated is not None and res.violated not in ("error",) and (inv is None or res.violated == inv)
        self.neg.append(dict(config=what, expected=inv or "any", observed=res.violated, ok=bool(okv)))
        if not okv:
            raise Inconclusive("non-vacuity: %s expected to violate %s, TLC reported %s" % (what, inv, res.violated))

    def violation(self, desc, case):
        """A mismatch observed on the REAL code. desc: canonical descriptor; case: replayable case."""
        f = match_finding(self.prop, desc)
        if f:
            self.known_hits.append((f, desc))
        else:
            self.violations.append((desc, case))

    def absorb(self, summary, family, only=None):
        """Take a harness summary {cases, compared, mismatches:[{desc, case}], samples} into the check.

        only: set of aspects this property is about; other mismatches are counted in the evidence
        (they belong to another property's check) but do not decide this property."""
        self.evaluations += summary.get("cases", 0)
        self.traces += summary.get("cases", 0)
        for m in summary.get("mismatches", []):
            d = m.get("desc", {})
            d.setdefault("family", family)
            if only is not None and d.get("aspect") not in only:
                self.extra["mismatches_of_other_properties"] = self.extra.get("mismatches_of_other_properties", 0) + 1
                continue
            self.violation(d, dict(family=family, case=m.get("case")))
        extra = summary.get("mismatch_count", 0) - len(summary.get("mismatches", []))
        if extra > 0:
            self.extra.setdefault("mismatches_not_listed", 0)
            self.extra["mismatches_not_listed"] += extra
        for s in summary.get("samples", [])[:2]:
            self.sample({family: s})
        self.extra.setdefault("replay", {})[family + "#%d" % (len(self.extra["replay"]) + 1)] = {
            k: v for k, v in summary.items() if k not in ("mismatches", "samples", "_stderr", "_code")}

    # -- finish ---------------------------------------------------------------------------
    def finish(self):
        wall = time.time() - self.t0
        seen = set()
        for f, d in self.known_hits:
            if f["id"] in seen:
                continue
            seen.add(f["id"])
            log("KNOWN-FINDING: property=%s %s" % (self.prop, f["what"]))
        code = 0
        rdir = os.path.join(OUT, "replay")
        if self.violations:
            os.makedirs(rdir, exist_ok=True)
            code = 1
            for i, (d, c) in enumerate(self.violations[:5]):
                rp = os.path.join(rdir, "%s-%d-%d.json" % (self.prop, os.getpid(), i))
                json.dump(dict(property=self.prop, desc=d, replay=c), open(rp, "w"), indent=1)
                log("VIOLATION property=%s replay=%s" % (self.prop, rp))
                log("  what: %s" % json.dumps(d)[:600])
        cov = dict(
            states=max(self.states, 0), transitions=max(self.transitions, 0),
            traces_validated_against_impl=self.traces,
            samples=self.samples or ["(none)"],
            evaluations=self.evaluations,
            exhaustive=self.exhaustive,
            tlc_runs=self.tlc_runs, neg_configs=self.neg,
            known_findings_hit=[dict(id=f["id"], example=d) for f, d in self.known_hits[:5]],
        )
        cov.update(self.extra)
        ev = dict(property_id=self.prop, tier=self.tier, seed=self.seed, level=self.level, coverage=cov,
                  assumptions=self.assumptions, wall_s=round(wall, 2), violations=len(self.violations))
        # VERIF_EVIDENCE_DIR: only for the sensitivity sweeps (mutants.py / seedcheck.py), whose runs on deliberately broken
        # trees must not overwrite the evidence of the real tree
        edir = os.environ.get("VERIF_EVIDENCE_DIR") or os.path.join(VERIF, "evidence")
        os.makedirs(edir, exist_ok=True)
        json.dump(ev, open(os.path.join(edir, self.prop + ".json"), "w"), indent=1, sort_keys=True)
        log("%s %s: states=%d transitions=%d impl-traces=%d violations=%d known=%d wall=%.1fs" % (
            self.prop, self.tier, self.states, self.transitions, self.traces, len(self.violations),
            len(seen), wall))
        return code


# ------------------------------------------------------------------------------------------------
# trace validation (code -> spec)
# ------------------------------------------------------------------------------------------------
def validate_trace(module, trace_path, constants=None, invariants=(), timeout=600, init="TraceInit",
                   next="TraceNext"):
    """Run a trace specification over an ndjson trace. Returns (accepted, bad_line, TLCResult).

    Convention of every spec/trace/Trace*.tla: boolean `ok`, position `l`, TLC register 1 holds the
    first rejected line, POSTCONDITION Post prints {"verdict": "ACCEPT"|"REJECT", ...}.
    """
    c = cfg(init=init, next=next, constants=constants or {}, invariants=invariants, postcondition="Post")
    res = run_tlc(module, cfg_text=c, workers=1, timeout=timeout, env={"TRACE": trace_path}, expect_fail=True)
    verdict = None
    for o in res.lines:
        if isinstance(o, dict) and "verdict" in o:
            verdict = o
    if res.violated in ("error",) or verdict is None:
        raise Inconclusive("trace validation of %s did not finish: %s\n%s" % (trace_path, res.error_text, res.raw_tail[-1200:]))
    if res.violated is not None:
        # an INVARIANT of the trace spec failed on a recorded step: that is a rejection at depth-1
        return False, max(res.depth - 1, 1), res
    if verdict["verdict"] == "ACCEPT":
        return True, 0, res
    bad = verdict.get("line", 0) or verdict.get("diameter", 0)
    return False, bad, res


def trace_line(path, n):
    with open(path) as f:
        for i, ln in enumerate(f, 1):
            if i == n:
                return json.loads(ln)
    return None
