#!/usr/bin/env python3
"""Sensitivity sweep: apply each patch of mutants/ (and seeded/*/patch.diff) to /repo, run the quick check of the
property it targets, expect exit 1, and restore /repo.   python3 vlib/mutants.py [name-substring ...]

The catalogue (patch -> properties expected to catch it) is mutants/catalogue.json. This is evidence about the
machinery, not part of the per-property interface."""
import json
import os
import subprocess
import sys
import time

V = os.path.dirname(os.path.dirname(os.path.abspath(__file__)))


def sh(cmd, **kw):
    return subprocess.run(cmd, shell=True, stdout=subprocess.PIPE, stderr=subprocess.STDOUT, text=True, **kw)


def main():
    cat = json.load(open(os.path.join(V, "mutants", "catalogue.json")))
    want = sys.argv[1:]
    assert sh("git -C /repo status --porcelain").stdout.strip() == "", "/repo is not clean"
    rows = []
    for ent in cat:
        name, props, patch = ent["name"], ent["props"], os.path.join(V, ent["patch"])
        if want and not any(w in name for w in want):
            continue
        ap = sh("git -C /repo apply --whitespace=nowarn %s" % patch)
        if ap.returncode != 0:
            rows.append((name, "patch does not apply", ""))
            print(name, "DOES NOT APPLY", ap.stdout[-300:])
            continue
        try:
            for p in props:
                t0 = time.time()
                r = sh("./check %s --tier quick" % p, cwd=V)
                verdict = {0: "MISSED", 1: "caught", 2: "inconclusive"}.get(r.returncode, str(r.returncode))
                first = [l for l in r.stdout.splitlines() if l.startswith("  what:") or "INCONCLUSIVE" in l][:1]
                rows.append((name, p, verdict))
                print("%-34s %-4s %-12s %5.0fs %s" % (name, p, verdict, time.time() - t0, (first[0][:160] if first else "")), flush=True)
        finally:
            sh("git -C /repo checkout -- . && git -C /repo clean -fdq")
    missed = [r for r in rows if r[2] != "caught"]
    print("%d runs, %d not caught" % (len(rows), len(missed)))
    return 1 if missed else 0


if __name__ == "__main__":
    sys.exit(main())
