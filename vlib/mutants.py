#!/usr/bin/env python3
"""Sensitivity sweep: apply each patch of mutants/ (and seeded/*/patch.diff) to a private scratch worktree of /repo
(outside /repo and /verif, removed afterwards), run the quick check of the property it targets against that tree
(VERIF_REPO), expect exit 1.   python3 vlib/mutants.py [-j N] [name-substring ...]

The catalogue (patch -> properties expected to catch it) is mutants/catalogue.json. This is evidence about the
machinery, not part of the per-property interface; its runs write their evidence files to a scratch directory."""
import json
import os
import subprocess
import sys
import tempfile
import time
from concurrent.futures import ThreadPoolExecutor

V = os.path.dirname(os.path.dirname(os.path.abspath(__file__)))


def sh(cmd, **kw):
    return subprocess.run(cmd, shell=True, stdout=subprocess.PIPE, stderr=subprocess.STDOUT, text=True, **kw)


def one(ent, base):
    name, props, patch = ent["name"], ent["props"], os.path.join(V, ent["patch"])
    wt = os.path.join(base, name)
    rows = []
    a = sh("git -C /repo worktree add -q --detach %s HEAD" % wt)
    if a.returncode != 0:
        return [(name, "worktree failed: " + a.stdout[-200:], "")]
    try:
        ap = sh("git -C %s apply --whitespace=nowarn %s" % (wt, patch))
        if ap.returncode != 0:
            print(name, "DOES NOT APPLY", ap.stdout[-300:], flush=True)
            return [(name, "patch does not apply", "")]
        env = dict(os.environ, VERIF_REPO=wt, VERIF_EVIDENCE_DIR=os.path.join(base, "evidence-" + name))
        for p in props:
            t0 = time.time()
            r = sh("./check %s --tier quick" % p, cwd=V, env=env)
            verdict = {0: "MISSED", 1: "caught", 2: "inconclusive"}.get(r.returncode, str(r.returncode))
            first = [l for l in r.stdout.splitlines() if l.startswith("  what:") or "INCONCLUSIVE" in l][:1]
            rows.append((name, p, verdict))
            print("%-34s %-4s %-12s %5.0fs %s" % (name, p, verdict, time.time() - t0, (first[0][:160] if first else "")), flush=True)
    finally:
        sh("git -C /repo worktree remove --force %s" % wt)
        sh("rm -rf %s" % os.path.join(base, "evidence-" + name))
    return rows


def main():
    cat = json.load(open(os.path.join(V, "mutants", "catalogue.json")))
    args = sys.argv[1:]
    jobs = 1
    if args[:1] == ["-j"]:
        jobs, args = int(args[1]), args[2:]
    todo = [e for e in cat if (not args or any(w in e["name"] for w in args)) and not e.get("stale")]
    base = tempfile.mkdtemp(prefix="rux-mutants-")
    rows = []
    try:
        with ThreadPoolExecutor(max_workers=jobs) as ex:
            for r in ex.map(lambda e: one(e, base), todo):
                rows += r
    finally:
        sh("git -C /repo worktree prune")
        sh("rm -rf %s" % base)
    missed = [r for r in rows if r[2] != "caught"]
    for r in missed:
        print("NOT CAUGHT:", r)
    print("%d runs, %d not caught" % (len(rows), len(missed)))
    return 1 if missed else 0


if __name__ == "__main__":
    sys.exit(main())
