#!/usr/bin/env python3
"""False-alarm sweep: property-PRESERVING changes of gookit/rux (refactorings, optimisations, behaviour no property
constrains), written by sub-agents that were given the property texts, are applied to a private scratch worktree and
ALL quick checks are run against it; every check must exit 0.   python3 vlib/benigncheck.py [-j N] [name-substring ...]

Input: /tmp/benign/out-B<k>/b<n>.patch.diff + b<n>.md (first run) or benign/<id>/patch.diff (kept copies).
An alarm is analysed by hand: either the change does break the property (then it is moved to seeded/) or the check is
over-strict (then the check is corrected); the outcome is recorded in benign/<id>/meta.json and DESIGN.md."""
import glob
import json
import os
import subprocess
import sys
import tempfile
import time
from concurrent.futures import ThreadPoolExecutor

V = os.path.dirname(os.path.dirname(os.path.abspath(__file__)))
ENV = dict(os.environ, GOFLAGS="-mod=mod", GOPROXY="off", GOSUMDB="off", GOTOOLCHAIN="local")
PROPS = ["C%02d" % i for i in range(1, 21)]


def sh(cmd, **kw):
    return subprocess.run(cmd, shell=True, stdout=subprocess.PIPE, stderr=subprocess.STDOUT, text=True, **kw)


def collect():
    items = {}
    for d in sorted(glob.glob(os.path.join(V, "benign", "*", "patch.diff"))):
        items[os.path.basename(os.path.dirname(d))] = (d, os.path.join(os.path.dirname(d), "note.md"))
    for p in sorted(glob.glob("/tmp/benign/out-B*/b*.patch.diff")):
        k = os.path.basename(os.path.dirname(p))[4:]
        n = os.path.basename(p).split(".")[0]
        name = "%s-%s" % (k, n)
        if name not in items:
            items[name] = (p, p.replace(".patch.diff", ".md"))
    return items


def one(name, patch, note, base, props):
    wt = os.path.join(base, name)
    meta = dict(id=name, checks={}, ran=[])
    a = sh("git -C /repo worktree add -q --detach %s HEAD" % wt)
    if a.returncode != 0:
        meta["status"] = "worktree failed"
        return meta
    try:
        ap = sh("git -C %s apply --whitespace=nowarn %s" % (wt, patch))
        meta["ran"].append(["git apply", ap.returncode])
        if ap.returncode != 0:
            meta["status"] = "patch does not apply: " + ap.stdout[-300:]
            return meta
        b = sh("go build ./... && go build -tags verif ./... && go test -vet=off -count=1 . ./pkg/binding ./pkg/handlers ./pkg/render", cwd=wt, env=ENV)
        meta["ran"].append(["go build (tag off/on) + go test", b.returncode])
        if b.returncode != 0:
            meta["status"] = "does not build / tests fail: " + b.stdout[-600:]
            return meta
        env = dict(os.environ, VERIF_REPO=wt, VERIF_EVIDENCE_DIR=os.path.join(base, "evidence-" + name))
        alarms = 0
        for p in props:
            t0 = time.time()
            r = sh("./check %s --tier quick" % p, cwd=V, env=env)
            first = [l for l in r.stdout.splitlines() if l.startswith("  what:") or "INCONCLUSIVE" in l][:1]
            verdict = {0: "quiet", 1: "ALARM", 2: "inconclusive"}.get(r.returncode, str(r.returncode))
            meta["checks"][p] = dict(exit=r.returncode, verdict=verdict, seconds=round(time.time() - t0), first=(first[0][:600] if first else ""))
            if r.returncode != 0:
                alarms += 1
                print("%-10s %-4s %-12s %s" % (name, p, verdict, first[0][:300] if first else r.stdout[-300:]), flush=True)
        meta["status"] = "all quiet" if alarms == 0 else "%d checks not quiet" % alarms
        print("%-10s %s" % (name, meta["status"]), flush=True)
    finally:
        sh("git -C /repo worktree remove --force %s" % wt)
        sh("rm -rf %s" % os.path.join(base, "evidence-" + name))
    d = os.path.join(V, "benign", name)
    os.makedirs(d, exist_ok=True)
    if os.path.abspath(patch) != os.path.join(d, "patch.diff"):
        sh("cp %s %s" % (patch, os.path.join(d, "patch.diff")))
        if os.path.exists(note):
            sh("cp %s %s" % (note, os.path.join(d, "note.md")))
    old = {}
    if os.path.exists(os.path.join(d, "meta.json")):
        old = json.load(open(os.path.join(d, "meta.json")))
    old.update(meta)
    json.dump(old, open(os.path.join(d, "meta.json"), "w"), indent=1)
    return meta


def main():
    args = sys.argv[1:]
    jobs = 1
    props = PROPS
    if args[:1] == ["-j"]:
        jobs, args = int(args[1]), args[2:]
    if args[:1] == ["-p"]:
        props, args = args[1].split(","), args[2:]
    items = {k: v for k, v in collect().items() if not args or any(w in k for w in args)}
    base = tempfile.mkdtemp(prefix="rux-benign-")
    try:
        with ThreadPoolExecutor(max_workers=jobs) as ex:
            res = list(ex.map(lambda kv: one(kv[0], kv[1][0], kv[1][1], base, props), items.items()))
    finally:
        sh("git -C /repo worktree prune")
        sh("rm -rf %s" % base)
    bad = [m for m in res if m.get("status") != "all quiet"]
    for m in bad:
        print("NOT QUIET:", m["id"], m.get("status"))
    print("%d changes, %d not quiet" % (len(res), len(bad)))
    return 1 if bad else 0


if __name__ == "__main__":
    sys.exit(main())
