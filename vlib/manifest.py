#!/usr/bin/env python3
"""Generate MANIFEST.json from the table below (python3 vlib/manifest.py)."""
import json
import os

V = os.path.dirname(os.path.dirname(os.path.abspath(__file__)))

BASE_OFF = ("cd /repo && GOFLAGS=-mod=mod GOPROXY=off GOSUMDB=off GOTOOLCHAIN=local "
            "go test -vet=off -count=1 -timeout 25m ./...")

# id -> (technique, level text, level note, design ref)
CLAIMED = {
    "C14": ("TLA+ spec RuxCache (declarative LRU + operational list/index mirror) model-checked with TLC; every edge of the "
            "bounded state graph replayed on cachedRoutes; recorded sequential and lock-ordered concurrent traces validated by TLC",
            "TLC explores the complete state graph of the LRU for 3-4 keys x capacities 0..3 (all op histories over that alphabet), "
            "checks refinement operational=>declarative and the LRU laws as action properties; each graph edge is replayed on the real "
            "cache comparing return values, key order and values; long random and concurrent histories of the real cache are "
            "validated step by step against the same actions.",
            "small-scope (keys<=4, cap<=3) for exhaustion; larger capacities/keys only through recorded traces; trusted: TLC, the "
            "verif-tag accessors VerifKeys/VerifRoutes and the cache hook which snapshots under the cache lock", "6 C14"),
}

CLAIMED["C01"] = (
    "TLA+ specs RuxPattern (set-valued pattern semantics) + RuxIndex (three-tier index as a state machine, operational "
    "Lookup vs declarative Select) model-checked with TLC; every table x every path replayed on Router.Add/Match; random big "
    "tables recorded from the real router and validated by TLC (TraceIndex)",
    "TLC enumerates every table of <=2 routes over the pattern pool spec/pools/pool49.txt (56 patterns; <=3 over 25 patterns in the thorough tier) and checks "
    "Lookup = Select for every path of <=5/6 characters; each table is rebuilt on the real router (plain and caching) and every "
    "(method, path) cell is compared with the model; traces of random tables (<=10 routes, nine methods, fresh patterns, paths "
    "<=16) are validated event by event against the Register action and the declarative selection.",
    "small scope for exhaustion (tables<=3, paths<=6 over a 5-letter alphabet); closed regex-class table; larger tables only via "
    "recorded traces; trusted: TLC, Go regexp agrees with the class table on the alphabet", "6 C01")
CLAIMED["C02"] = (
    "same specification as C01: the match matrix Decomps(pattern, path) (ALL admissible bindings) is computed by TLC, its laws "
    "(names, substitution back, class membership) are TLC assertions, and the real Match/params (cache off, capacity 1, capacity "
    "1000, miss and hit) are compared cell by cell; recorded traces validated by TLC",
    "For 31 parameter-shaped patterns x every path of <=5/6 characters over two alphabets TLC computes the set of admissible "
    "decompositions and asserts DecompSound; the real router's params must be a member (equal where the set is a singleton), "
    "with caching off and on (miss, hit, after eviction).",
    "set-valued oracle (greedy/lazy regex choices are not constrained); Params treated read-only by handlers; trusted: TLC, class "
    "table vs Go regexp", "6 C02")

CLAIMED["C06"] = (
    "TLA+ spec RuxResolve (operational QuickMatch/findAllowedMethods over the index vs the declarative resolution ladder) "
    "model-checked with TLC for every table/option set/intercept spelling; every cell replayed on Router.Match and ServeHTTP",
    "TLC enumerates tables of <=2 routes over an 8-pattern pool x 5 method sets x HandleMethodNotAllowed x HandleFallbackRoute x "
    "InterceptAll spellings and checks QuickMatch = Resolve for 6 request methods x 18 paths; each state is rebuilt on the real "
    "router (plain, caching, custom NotFound/NotAllowed handlers) and Match results, status, Allow header and bodies compared.",
    "small scope; StrictLastSlash not varied here (C11); default and custom fallback handlers; trusted: TLC, net/http recorder", "6 C06")
CLAIMED["C07"] = (
    "TLA+ spec RuxRouterCache (router + LRU threaded through every match() call incl. HEAD fallback and 405 probes); TLC "
    "explores the complete state graph and checks transparency as an action property; every edge replayed on a caching router "
    "and its cache-less twin",
    "The reachable graph of (table, options, capacity, cache content) for 3 tables x 9 requests x capacities 0..3 covers request "
    "histories of every length over that alphabet; on every transition the result through the cache equals the cache-less "
    "resolution; each edge is replayed on twin real routers comparing responses with each other and with the model, and the "
    "cache keys in recency order with the model.",
    "fixed tables/request alphabet; Params read-only; registration finished before serving; trusted: TLC, verif-tag cache accessors", "6 C07")
CLAIMED["C11"] = (
    "TLA+ spec RuxPath (declarative Norm vs statement-level FormatPath with partiality, URL escape forms) model-checked over all "
    "token strings; Route.Path() under 0-2 group prefixes, the full reach matrix and raw-URL requests replayed on the real router",
    "All token strings <=4/5 over {/, SP, TAB, ., a}: FormatPath = Norm, totality and the normalisation laws; for every string the "
    "predicted Route.Path() (alone, in one and in two nested groups, both StrictLastSlash settings) and, for every pair (P,Q), "
    "whether Q reaches a route registered as P; raw URLs with %2F %20 %61 under both UseEncodedPath settings via ServeHTTP.",
    "alphabet-bounded; static routes for the reach relation; trusted: TLC, net/url parsing", "6 C11")

_CHAIN = ("TLA+ spec RuxChain: ideal onion/abort/panic semantics (recursive function) vs the Context.Next cursor machine with the real "
          "int8 / abortIndex constants, model-checked with TLC; every chain replayed through real Use/Group/GET/Route.Use/NotFound/"
          "NotAllowed registration with instrumented handlers")
CLAIMED["C04"] = (_CHAIN,
    "TLC runs the cursor machine on every chain of <=4/5 handlers over the scripts {return, Next, Next twice, abort variants} and on "
    "uniform / one-odd-handler families up to 63 handlers with the real constants, checking that its log is always a prefix of and "
    "finally equal to the ideal log; each chain is then executed on the real router, split over global (before and after the route is "
    "registered) / outer group / inner group / in-group Use / variadic / Route.Use levels, and as NotFound and NotAllowed chains.",
    "scripts are finite behaviours; all 7-way level splits only for n<=3 (seeded splits above); trusted: TLC, instrumented handlers", "6 C04")
CLAIMED["C05"] = (_CHAIN,
    "Same machines with abort scripts (Abort, Abort then Next, Next then Abort, AbortWithStatus) at every position of chains up to 63 "
    "handlers (exhaustive <=4/5, families above), IsAborted probed at every in/out event, AbortWithStatus checked through the writer "
    "log; chains of 64..66 handlers are explored and attributed to known finding F20.",
    "documented limit read as: executed chain of at most 63 handlers; F20 (longer chains) is a recorded finding; trusted as C04", "6 C05")
CLAIMED["C08"] = (
    "TLA+ writer functions of RuxChain (mirror of response_wirter.go) vs the declarative OneCommit over the executed op sequence, "
    "model-checked for every op sequence; every sequence and its distribution over handlers replayed against a recording, "
    "fault-injecting http.ResponseWriter",
    "All sequences of <=3 ops over 12 writer ops and <=4/5 over 7/8 ops (SetStatus <=0/1xx-5xx, Write 0/1/3 bytes with full, short "
    "and failing underlying writes, Flush, http.Error), issued from one handler or split before/after Next over two handlers: "
    "exactly one WriteHeader, first, with the last positive status before the first write/flush, body and Length.",
    "header values other than status are not modelled; trusted: TLC, the recording writer of the harness", "6 C08")
CLAIMED["C09"] = (_CHAIN,
    "Panic scripts (before Next, after Next, after bytes were written) at every position of chains <=3/4 and in long chains, in route, "
    "NotFound and NotAllowed chains, with OnError installed, x hooks {absent, nothing, status, status+body}: the ideal dispatch "
    "(DispatchOK invariant) predicts log, hook-run, escape and writer log; each case runs on the real router, is repeated on the same "
    "router (healthy), and the recovered value is checked under CTXRecoverResult.",
    "follow-up = the same request repeated (pool residue after panics is C10's model); trusted as C04", "6 C09")

CLAIMED["C12"] = (
    "TLA+ spec RuxReg: registration as a state machine (currentGroupPrefix/currentGroupHandlers with save/restore, Use, GET, "
    "Route.Use) vs lexical scoping read off the bracket structure of the program; model-checked with TLC for every program; "
    "complete programs replayed on the real router; random long programs recorded statement by statement and validated by TLC",
    "Every registration program of <=4/5 statements (nesting <=2/3): invariants RoutesAgree (path = concatenated prefixes, "
    "middleware = enclosing groups' middleware in effect at registration, request-time chain) and NoResidue (the router's group "
    "fields equal what the lexical position prescribes after every statement). Each complete program runs on the real router "
    "(Group and Controller), comparing Path(), middleware count and the enter/leave order of one real request per route; recorded "
    "programs of <=40 statements, depth <=5, are validated event by event (TraceReg) with both invariants evaluated at every step.",
    "handlers always call Next (ordering only); clean non-root prefixes; Resource registrations are covered by C16; trusted: TLC", "6 C12")

CLAIMED["C03"] = (
    "TLA+ spec RuxServe: in-flight requests over explicit Go slices (shared backing arrays, append in place vs allocate), pool "
    "and lazily initialised fields; TLC enumerates every interleaving at handler-boundary granularity and checks NoInterference, "
    "NoSharedCtx and the model-level race condition; every schedule replayed on real goroutines parked at handler boundaries; "
    "-race stress traces validated per request by TLC, race reports with a rux frame are violations",
    "All interleavings of 2 requests (and 3 on the critical shape) over routes a / b(dynamic) / 404, for global and route "
    "middleware slices with and without spare capacity: each request's log equals its solo log, contexts are never shared, no "
    "cell written by one request is touched by another. The schedules run on the real router (plain and caching) with a parking "
    "scheduler; then 2-8 goroutines serve thousands of requests (plus concurrent cached lookups) under the race detector.",
    "interleavings below handler granularity cannot be forced in Go: explored in the model, observed by the race detector; "
    "trusted: TLC, Go race detector, parking scheduler (stuck schedule = inconclusive)", "6 C03")

CLAIMED["C10"] = (
    "TLA+ spec RuxPool: contexts as records of observable fields, field-by-field Init/Reset, pool of residues; TLC explores the "
    "complete residue graph and checks that the first handler always observes the pristine record (action property); every "
    "history replayed on a real router with a probe middleware and compared with a freshly built twin",
    "All histories of <=3 requests over {static, dynamic, 404, 405, panicking with/without OnPanic, HandleContext} x mutation sets "
    "{Set, Params, AddError, Abort, status+write, replaced Resp, replaced Req}: the last request's first handler observes "
    "Data/Params/Errors/IsAborted/StatusCode/Length/Resp/Req exactly as on a fresh router; runs on one OS thread with GC off so "
    "sync.Pool really recycles (reuse counted in the evidence).",
    "sync.Pool recycling is observed, not forced; Router() of foreign contexts is outside the statement; trusted: TLC", "6 C10")

CLAIMED["C13"] = (
    "TLA+ spec RuxDefs: a three-valued verdict function (reject / accept / unspecified) over token strings, methods, handler and "
    "handler counts, checked total and consistent by TLC over every token string; every definition registered on the real router "
    "and every accepted one probed with odd methods and paths under four option sets",
    "Every path definition of <=3/4 tokens over 15 tokens (and <=5/7 over a reduced alphabet with variable regexes and groups), "
    "normalised per StrictLastSlash, plus the method-name / nil-handler / handler-count / options-after-routes block: reject => "
    "registration panics, accept => it does not, and whatever registration accepts never panics in Match or ServeHTTP for 7 method "
    "strings x 29 paths (empty, blank, non-UTF-8, 300 characters, metacharacters) incl. caching routers.",
    "the verdict is deliberately silent (unspecified) on text outside the documented grammar that the statement does not list; "
    "trusted: TLC", "6 C13")

CLAIMED["C15"] = (
    "TLA+ spec RuxURL (Subst then Decomps over the pattern semantics of RuxPattern; name table = last writer) model-checked over "
    "every named pattern x value assignment and every naming program; each case replayed as BuildURL -> String -> http.NewRequest -> "
    "Match on the real router in all three argument styles",
    "15 named patterns (static, default/custom/global classes, '.' literals) x all assignments from per-class value sets incl. inner "
    "space, non-ASCII, '%', '?', '#', '/' (for .* and .+): RoundTrip holds in the spec; the real URL is routed to the same route with "
    "the same values; 0-2 extra arguments arrive as query parameters; naming programs of <=3/4 calls over the four naming APIs.",
    "precondition: built path is a normalisation fixed point and decomposes uniquely (others counted as skipped); trusted: TLC, net/url", "6 C15")
CLAIMED["C16"] = (
    "TLA+ spec RuxResource (documented table vs the registration loop of Router.Resource composed with group path normalisation; "
    "probe resolution with static-beats-dynamic) model-checked for all 128 action subsets; replayed with 256 generated controller types",
    "All 128 subsets of {Index..Delete} x 3 base paths: operational table = documented table; for every subset the real router "
    "(with and without Uses()) must list exactly the documented method/path/name triples and serve 9 methods x 7 probe paths by the "
    "predicted action with only that action's middleware; non-pointer / non-struct controllers must be rejected.",
    "generated controllers; resource name = lower-cased type name; trusted: TLC, reflect", "6 C16")

CLAIMED["C20"] = (
    "TLA+ spec RuxGates (statement-level decision vs code steps for HTTPBasicAuth, HTTPMethodOverrideHandler, WrapHTTPHandlers) "
    "model-checked over every case; every case concretised into real requests against the real handlers",
    "4 account maps x (absent, 5 malformed shapes, 9 user/password pairs) credentials, 9 methods x 9 x 9 override carrier values, "
    "all wrapper lists of 1..4: code steps agree with the statement in the spec; on the real code: status, WWW-Authenticate, which "
    "handlers ran (gate as global, group and route middleware), method and original method seen by the routed handler, enter/leave "
    "order of wrappers and of a wrapped generic handler between native middleware.",
    "two disagreeing override carriers: either reading is admissible (the statement is silent); trusted: TLC, net/http BasicAuth", "6 C20")
CLAIMED["C17"] = (
    "TLA+ spec RuxStatic (abstract tree with a secret beside the root; decoding, cleaning, extension rule of the rux-side pipeline) "
    "model-checked over every raw request path; every path requested from real StaticDir/StaticFS/StaticFiles/StaticFile handlers "
    "on a real temporary tree with marker files",
    "All raw paths of <=3/4 segments over 15 segment tokens ('..', '.', empty, %2e%2e, %2f-joined traversals, trailing dot, names "
    "inside and outside the root) plus back-slash / NUL / trailing-dot / double-slash variants: in the model Clean never leaves the "
    "root and StaticFiles obeys the extension rule; on the real handlers no response ever contains the content of the files outside "
    "the root, StaticFiles bodies imply the extension condition, and 200 responses carry exactly the file the model serves.",
    "confinement is largely net/http's; no symlinks; redirects/4xx/5xx unconstrained (safety claim); trusted: TLC, os, net/http", "6 C17")

CLAIMED["C18"] = (
    "TLA+ spec RuxBind (source decision table by statement vs the code's ordered substring tests; outcome/validator gating) "
    "model-checked over all methods x media types; struct values enumerated by TLC; every case executed through binding.Auto and "
    "Context.Bind with Go's own encoders",
    "9 methods x 9 media types x with/without parameters: the source used is identified by binding a request that carries a "
    "different value in every potential source; 1248 values of a representative struct (ints, strings with separators of every format "
    "and non-ASCII, bools, slices) x 5 formats x validator on/off round-trip; every proper prefix of valid JSON/XML encodings must "
    "be an error and 21 garbage keys x 5 formats must not panic.",
    "model_checking for the table and gating; codec fidelity is exploration-strength (TLC as enumerator, identity as oracle); "
    "trusted: TLC, encoding/json, encoding/xml, net/url, mime/multipart", "6 C18")
CLAIMED["C19"] = (
    "TLA+ spec RuxRender (helper -> status / Content-Type / body shape; Negotiate = first supported vs the loop of render.Auto) "
    "model-checked over every case; every case executed on the real helpers with a recorder and the body decoded back in Go",
    "16 helpers x 7 statuses x preset/absent Content-Type x 8 value classes (plain, HTML, control, non-ASCII strings, nested maps, "
    "structs, byte slices, an unencodable channel): status, Content-Type (preset kept by the pkg/render based helpers), body decodes "
    "back to the value (JSONP as cb(...);), encoding failures surface in Context.Errors or the returned error; all Accept lists of "
    "<=3 entries over 7 media types, in three spellings of the separator.",
    "model_checking for tables and negotiation; decode-back is exploration-strength; text/html negotiation not constrained; "
    "trusted: TLC, encoding/json, encoding/xml", "6 C19")

PENDING = {}


def main():
    props = [json.loads(l) for l in open(os.path.join(V, "properties.jsonl"))]
    checks = []
    na = []
    for p in props:
        i = p["id"]
        if i in CLAIMED:
            tech, text, note, ref = CLAIMED[i]
            checks.append(dict(
                property_id=i,
                quick_cmd="./check %s --tier quick" % i,
                thorough_cmd="./check %s --tier thorough" % i,
                evidence_file="/verif/evidence/%s.json" % i,
                replay_cmd_template="./check %s --replay {path}" % i,
                engine="tlc+ruxh",
                level_claimed=dict(category="model_checking", text=text, design_ref="DESIGN.md section " + ref),
                level_note=note,
                technique=tech))
        else:
            na.append(dict(property_id=i, reason=PENDING.get(i, "check not built yet in this round (planned, see DESIGN.md section 6); not claimed until its machinery runs clean on the unchanged tree")))
    m = dict(
        version=1,
        setup_cmd="cd /verif && python3 vlib/setup.py",
        hooks=dict(guard="verif (Go build tag)",
                   enable="go build -tags verif (harness module replaces github.com/gookit/rux with /repo)",
                   baseline_off_cmd=BASE_OFF,
                   source_commits=[l.strip() for l in open(os.path.join(V, "hooks_commits.txt")) if l.strip()],
                   add_only=True),
        engines=[dict(name="tlc+ruxh", path="/verif/check", serves_properties=sorted(CLAIMED),
                      kind_free_text="explicit TLA+ specification (spec/*.tla) checked by TLC 1.8; Go harness harness/cmd/ruxh replays "
                                     "TLC-exported behaviours on the real code and records traces that TLC validates against trace specs")],
        checks=checks,
        notes="exit 0 held / exit 1 VIOLATION (real-code behaviour) / exit 2 inconclusive. known findings: known_findings.json",
        not_applicable=na)
    json.dump(m, open(os.path.join(V, "MANIFEST.json"), "w"), indent=1)
    print("MANIFEST.json: %d checks, %d not claimed" % (len(checks), len(na)))


if __name__ == "__main__":
    main()
