"""Parse rux route-path source text into the compact pattern syntax of vlib/patterns.py (or None if it uses a regex
outside the closed class table / two variables in one segment / other constructs the specification does not model)."""
import re

REGEX_CLASS = {r"\d+": "dig", r"[0-9]+": "dig", r"\w+": "word", r"[1-9][0-9]*": "num", r".*": "all", r".+": "rest1", r"[^/]+": "any"}
GLOBAL_VARS = {"num": "num", "all": "all", "any": "any"}
LIT_OK = re.compile(r"^[A-Za-z0-9_\-./*~@!,;=+ ]*$")


def to_compact(text):
    core = text.rstrip("]")
    if len(text) - len(core) != core.count("[") or "]" in core:
        return None
    out = ""
    names = set()
    for li, lv in enumerate(core.split("[")):
        if li:
            out += "["
        i = 0
        while i < len(lv):
            if lv[i] == "{":
                j = lv.find("}", i)
                if j < 0:
                    return None
                body = lv[i + 1:j]
                if "{" in body or "/" in body:
                    return None
                if ":" in body:
                    n, rx = body.split(":", 1)
                    n, rx = n.strip(), rx.strip()
                    k = REGEX_CLASS.get(rx)
                    if k is None:
                        return None
                else:
                    n, k = body, GLOBAL_VARS.get(body, "any")
                if not re.match(r"^[A-Za-z_][A-Za-z0-9_]*$", n) or n in names:
                    return None
                names.add(n)
                out += "{%s}" % n if (k == "any" or (n in GLOBAL_VARS and GLOBAL_VARS[n] == k)) else "{%s:%s}" % (n, k)
                i = j + 1
            else:
                if lv[i] in "}()?\\^$|":
                    return None
                out += lv[i]
                i += 1
        if not LIT_OK.match(re.sub(r"\{[^}]*\}", "", lv)):
            return None
    out += "]" * (core.count("["))
    # at most one variable per '/'-segment of the flattened pattern
    flat = out.replace("[", "").replace("]", "")
    for seg in flat.split("/"):
        if seg.count("{") > 1:
            return None
    return out


if __name__ == "__main__":
    for t in ["/users/{id}", r"/blog/{id:\d+}", "/a[/{b}[/{c}]]", r"/x/{n:[a-z]+}", "/{a}{b}", r"/blog/{title:\w+}[.html]", "/*", "/assets/{file:.+}"]:
        print(t, "->", to_compact(t))
