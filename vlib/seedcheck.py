#!/usr/bin/env python3
"""Confirm and evaluate independently written breaking changes (sub-agent output in /tmp/seed/out-Cnn/).

  python3 vlib/seedcheck.py C06 [C14 ...]       # confirm m1/m2 of those properties, evaluate the checks, store in seeded/

Confirmation (in a scratch worktree of /repo outside /repo and /verif, removed afterwards):
  patch applies to /repo HEAD, library builds (with and without the verif tag), the WHOLE existing suite passes with the
  change, the demonstration FAILS with the change and PASSES without it.
Evaluation: the patch is applied to /repo, the quick check of the property runs (expect exit 1), /repo is restored.
Kept as seeded/<id>-<m>/{patch.diff, demo_test.go, meta.json}."""
import json
import os
import re
import shutil
import subprocess
import sys
import time

V = os.path.dirname(os.path.dirname(os.path.abspath(__file__)))
ENV = dict(os.environ, GOFLAGS="-mod=mod", GOPROXY="off", GOSUMDB="off", GOTOOLCHAIN="local")


def sh(cmd, cwd=None, timeout=1800):
    p = subprocess.run(cmd, shell=True, cwd=cwd, env=ENV, stdout=subprocess.PIPE, stderr=subprocess.STDOUT, text=True, timeout=timeout)
    return p.returncode, p.stdout


def demo_pkg(src):
    m = re.search(r"^package (\w+)", src, re.M)
    pkg = m.group(1) if m else "rux"
    for name, d in (("binding", "pkg/binding"), ("handlers", "pkg/handlers"), ("render", "pkg/render")):
        if pkg in (name, name + "_test"):
            return d
    return "."


ROUND = ""


def confirm(prop, m, extra_props):
    out = "/tmp/seed/out%s-%s" % (ROUND, prop)
    patch = os.path.join(out, "%s.patch.diff" % m)
    demo = os.path.join(out, "%s_demo_test.go" % m)
    if not (os.path.exists(patch) and os.path.exists(demo)):
        return dict(id="%s-%s" % (prop, m), status="missing files")
    mid = ("r%s" % ROUND if ROUND else "") + m
    wt = "/tmp/seedchk/%s-%s" % (prop, mid)
    shutil.rmtree(wt, ignore_errors=True)
    sh("git -C /repo worktree prune")
    rc, o = sh("git -C /repo worktree add -q --detach %s HEAD" % wt)
    meta = dict(id="%s-%s" % (prop, mid), property=prop, description=open(os.path.join(out, m + ".md")).read() if os.path.exists(os.path.join(out, m + ".md")) else "",
                ran=[])
    try:
        src = open(demo).read()
        tests = re.findall(r"^func (Test\w+)\(", src, re.M)
        pkgdir = demo_pkg(src)
        dst = os.path.join(wt, pkgdir, "zz_seed_%s_demo_test.go" % m)
        run_demo = "go test -vet=off -count=1 -run '^(%s)$' ./%s" % ("|".join(tests), pkgdir)
        rc, o = sh("git apply --whitespace=nowarn %s" % patch, cwd=wt)
        meta["ran"].append(("git apply", rc))
        if rc != 0:
            meta["status"] = "patch does not apply: " + o[-300:]
            return meta
        rc1, o1 = sh("go build ./... && go build -tags verif ./...", cwd=wt)
        rc2, o2 = sh("go test -vet=off -count=1 ./...", cwd=wt)
        meta["ran"] += [("go build (tag off and on)", rc1), ("go test ./... with the change", rc2)]
        if rc1 != 0 or rc2 != 0:
            meta["status"] = "does not build or the existing suite fails with the change: " + (o1 + o2)[-400:]
            return meta
        shutil.copy(demo, dst)
        rc3, o3 = sh(run_demo, cwd=wt)
        meta["ran"].append((run_demo + " (with the change)", rc3))
        sh("git apply -R --whitespace=nowarn %s" % patch, cwd=wt)
        rc4, o4 = sh(run_demo, cwd=wt)
        meta["ran"].append((run_demo + " (without the change)", rc4))
        if not tests or rc3 == 0 or rc4 != 0:
            meta["status"] = "demonstration not confirmed (with change rc=%d, without rc=%d): %s" % (rc3, rc4, (o3 + o4)[-600:])
            return meta
        meta["status"] = "confirmed"
        meta["demo_failure"] = [l for l in o3.splitlines() if "---" in l or "Error" in l or "demo" in l.lower()][:6]
        # evaluation: the quick check(s) against the scratch worktree with the change applied (VERIF_REPO), so that /repo
        # stays untouched and several seeds can be evaluated at the same time
        os.remove(dst)
        rc, o = sh("git apply --whitespace=nowarn %s" % patch, cwd=wt)
        meta["checks"] = {}
        env = dict(ENV, VERIF_REPO=wt, VERIF_EVIDENCE_DIR="/tmp/seedchk/evidence-%s-%s" % (prop, mid))
        for p in [prop] + list(extra_props):
            t0 = time.time()
            pr = subprocess.run("./check %s --tier quick" % p, shell=True, cwd=V, env=env, stdout=subprocess.PIPE, stderr=subprocess.STDOUT, text=True)
            rc, o = pr.returncode, pr.stdout
            first = [l.strip() for l in o.splitlines() if l.strip().startswith("what:") or "INCONCLUSIVE" in l][:1]
            meta["checks"][p] = dict(exit=rc, verdict={0: "MISSED", 1: "caught", 2: "inconclusive"}.get(rc, str(rc)),
                                     seconds=round(time.time() - t0), first=(first[0][:500] if first else ""))
        shutil.rmtree("/tmp/seedchk/evidence-%s-%s" % (prop, mid), ignore_errors=True)
    finally:
        sh("git -C /repo worktree remove --force %s" % wt)
        shutil.rmtree(wt, ignore_errors=True)
    d = os.path.join(V, "seeded", meta["id"])
    os.makedirs(d, exist_ok=True)
    shutil.copy(patch, os.path.join(d, "patch.diff"))
    shutil.copy(demo, os.path.join(d, "demo_test.go"))
    json.dump(meta, open(os.path.join(d, "meta.json"), "w"), indent=1)
    return meta


def main():
    global ROUND
    args = sys.argv[1:]
    if args and args[0] == "--round":
        ROUND = args[1]
        args = args[2:]
    jobs = 1
    if args and args[0] == "-j":
        jobs, args = int(args[1]), args[2:]
    work = []
    for a in args:
        prop, _, more = a.partition("+")
        for m in ("m1", "m2"):
            work.append((prop, m, [x for x in more.split(",") if x]))

    def run(w):
        r = confirm(*w)
        ch = {k: v["verdict"] for k, v in r.get("checks", {}).items()}
        lines = ["%-8s %-60s %s" % (r["id"], r.get("status", "")[:60], ch)]
        for k, v in r.get("checks", {}).items():
            if v["first"]:
                lines.append("         %s: %s" % (k, v["first"][:260]))
        print("\n".join(lines), flush=True)
    from concurrent.futures import ThreadPoolExecutor
    with ThreadPoolExecutor(max_workers=jobs) as ex:
        list(ex.map(run, work))


if __name__ == "__main__":
    main()
