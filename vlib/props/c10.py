"""C10 - every request starts from a pristine context whatever happened before."""
import json
import os
from .. import core

DEVS = ["D_KeepParams", "D_KeepData", "D_KeepErrors", "D_KeepIndex", "D_KeepWriter", "D_KeepResp", "D_KeepReq"]
MUTS = {"set", "params", "error", "abort", "write", "resp", "req", "hijack", "query", "delegate", "sethandlers", "renderfail", "allowed", "datawrite"}


BASIC = {"set", "params", "error", "abort", "write", "resp", "req"}


def pcfg(kinds, maxhist, maxmut, emit=True, muts=MUTS, **dev):
    c = {d: False for d in DEVS}
    c.update(dev)
    c.update(Kinds=set(kinds), Mutations=set(muts), MaxPool=2, MaxHist=maxhist, MaxMut=maxmut)
    return core.cfg(init="MCInit", next="MCNext", constants=c, properties=["MCPristine"], view="View",
                    action_constraints=["Emit"] if emit else [])


def run(chk):
    thorough = chk.tier == "thorough"
    chk.assumptions += [
        "observed fields: Data(), Params, Errors, IsAborted, StatusCode, Length, Resp, Req (the list of the property); "
        "Router() of externally built contexts passed to HandleContext is outside the statement",
        "histories run on one locked OS thread with GC off; context reuse is counted in the evidence, not assumed",
    ]
    out = os.path.join(core.scratch(), "pool.ndjson")
    with open(out, "w") as fo:
        def cb(o):
            fo.write(json.dumps(o, separators=(",", ":")))
            fo.write("\n")
        for kinds, name in ((["static", "dynamic", "optional", "render", "notfound", "notallowed", "panic", "foreign"], "no hook"),
                            (["static", "dynamic", "notfound", "panichook"], "OnPanic hook")):
            res = core.run_tlc("MC_Pool", cfg_text=pcfg(kinds, 3, 1), timeout=1800, keep_lines=False, line_cb=cb)
            chk.expect_holds(res, "Pristine (%s)" % name)
            chk.add_tlc(res, "complete residue graph, histories<=3, one of %d mutations per request, kinds %s (%s)" % (len(MUTS), kinds, name))
            if thorough:    # pairs of mutations in one request, over the mutations that leave something in the model's context
                res = core.run_tlc("MC_Pool", cfg_text=pcfg(kinds, 3, 2, muts=BASIC), timeout=3600, keep_lines=False, line_cb=cb)
                chk.expect_holds(res, "Pristine (%s, mutation pairs)" % name)
                chk.add_tlc(res, "complete residue graph, histories<=3, up to two of %d mutations per request, kinds %s (%s)" % (len(BASIC), kinds, name))
    s = core.run_harness(["pool", "replay", out], timeout=5400)
    chk.absorb(s, "pool")
    chk.extra["pool_reuse"] = s.get("info", {})
    os.remove(out)
    chk.exhaustive = True
    for d in (DEVS if thorough else DEVS[:3]):
        r = core.run_tlc("MC_Pool", cfg_text=pcfg(["static", "dynamic", "notfound"], 3, 1, emit=False, **{d: True}), timeout=300)
        chk.expect_fails(r, "MC_Pool[%s]" % d, "MCPristine")


def replay(doc):
    print("replay:", doc.get("desc", {}).get("what", "")[:2000])
    p = os.path.join(core.scratch(), "case.ndjson")
    core.write_ndjson(p, [doc["replay"]["case"]])
    s = core.run_harness(["pool", "replay", p])
    print(json.dumps(s["mismatches"], indent=1)[:3000])
    return 1 if s["mismatch_count"] else 0
