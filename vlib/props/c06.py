"""C06 - unmatched requests resolve HEAD->GET, fallback route, 405/Allow, 404 in order; InterceptAll."""
import json
import os
from .. import core, patterns as P

POOL = ["/", "/a", "/a/1", "/{x}", "/a/{x}", "/a/{x:dig}", "/*", "/a[/{x}]"]
POOL_STRICT = ["/a", "/a/", "/a/{x}", "/*", "/{x}"]
EXTRA = [("/", "a", "/", "1"), ("/", "a", "/", "a"), ("/", "1", "/", "a"), ("/", "a", "/", "1", "/", "a"),
         ("a",), ("/", "a", "/"), ("SP", "/", "a", "SP")]
ALL9 = ["GET", "POST", "PUT", "PATCH", "DELETE", "OPTIONS", "HEAD", "CONNECT", "TRACE"]
DEV = dict(D_IrregularOverwrite=False, D_QuotedStart=False, D_VarlessOptionalIrregular=False, D_EmptyCheckBeforeTrim=False,
           D_InterceptRaw=False, D_FallbackBeforeHead=False, D_AllowProbeHeadFallback=False)


def rcfg(maxtable, method_sets, req_methods, intercepts, emit=True, stricts=(False,), **dev):
    c = dict(DEV)
    c.update(dev)
    c.update(MaxLen=3, MaxTable=maxtable, MethodSets=core.SetOfSets(method_sets), ReqMethods=set(req_methods),
             Intercepts=set(intercepts), Stricts=set(stricts))
    return core.cfg(constants=c, invariants=["ResolveAgree", "ResolveAgreeS"] + (["Emit"] if emit else []))


def pooldef(pool=POOL):
    pd = os.path.join(core.scratch(), "PoolDef.tla")
    open(pd, "w").write(P.pooldef(pool, chars=("/", "a", "1", "*"), extra_paths=EXTRA))
    return pd


def run(chk):
    thorough = chk.tier == "thorough"
    chk.assumptions += [
        "tables of <=2 routes over an 8-pattern pool (static, regular, irregular, optional, '/*'), 5 method sets",
        "request methods GET HEAD POST OPTIONS DELETE and the unknown FOO; 18 normalised paths",
        "InterceptAll spellings '/a', 'a', '/a/' (and ' /a ' in the thorough tier)",
    ]
    pd = pooldef()
    msets = [["GET"], ["POST"], ["HEAD"], ["GET", "POST"], ALL9]
    reqm = ["GET", "HEAD", "POST", "OPTIONS", "DELETE", "FOO"]
    icpts = ["off", "/a", "a", "/a/", " /a "] if thorough else ["off", "/a", "a", "/a/"]
    out = os.path.join(core.scratch(), "resolve.ndjson")
    with open(out, "w") as fo:
        def cb(o):
            fo.write(json.dumps(o, separators=(",", ":")))
            fo.write("\n")
        res = core.run_tlc("MC_Resolve", cfg_text=rcfg(2, msets if thorough else msets[:4] + [ALL9], reqm, icpts),
                           extra_files=[pd], timeout=1800, keep_lines=False, line_cb=cb)
    chk.expect_holds(res, "QuickMatch = Resolve")
    chk.add_tlc(res, "tables<=2 x 4 option sets x intercepts %s" % icpts)
    chk.absorb(core.run_harness(["resolve", "replay", out], timeout=3000), "resolve")
    os.remove(out)
    # StrictLastSlash: a trailing slash is significant for routes, requests and the intercept path alike
    pds = pooldef(POOL_STRICT)
    with open(out, "w") as fo:
        def cb2(o):
            fo.write(json.dumps(o, separators=(",", ":")))
            fo.write("\n")
        res = core.run_tlc("MC_Resolve", cfg_text=rcfg(2, [["GET"], ["GET", "POST"], ["POST"]], reqm, ["off", "/a/", "a"] + ([" /a ", "/a"] if thorough else []),
                                                       stricts=(True,)), extra_files=[pds], timeout=1800, keep_lines=False, line_cb=cb2)
    chk.expect_holds(res, "QuickMatch = Resolve (StrictLastSlash)")
    chk.add_tlc(res, "strict routers: tables<=2 over %s x 4 option sets x intercepts" % POOL_STRICT)
    chk.absorb(core.run_harness(["resolve", "replay", out], timeout=3000), "resolve")
    os.remove(out)
    pd = pooldef()
    chk.exhaustive = True
    if thorough:   # the repository's own tests as a trace source
        from . import repo
        repo.validate(chk)
    for sw in (["D_InterceptRaw", "D_FallbackBeforeHead", "D_AllowProbeHeadFallback"] if thorough else ["D_InterceptRaw", "D_FallbackBeforeHead"]):
        r = core.run_tlc("MC_Resolve", cfg_text=rcfg(2, msets[:3] + [ALL9], reqm, ["off", "/a/"], emit=False, **{sw: True}),
                         extra_files=[pd], timeout=600)
        chk.expect_fails(r, "MC_Resolve[%s]" % sw, "ResolveAgree")


def replay(doc):
    print("replay:", doc.get("desc", {}).get("what"))
    return 2
