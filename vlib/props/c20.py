"""C20 - auth, method-override and http.Handler wrappers behave as gates."""
import json
import os
from .. import core

DEV = dict(D_AuthUnknownUserPasses=False, D_OverrideAnyMethod=False, D_WrapReversed=False)


def run(chk):
    thorough = chk.tier == "thorough"
    chk.assumptions += [
        "account maps {} / {u:p} / {u:''} / {u:p, v:q}; credentials absent, 5 malformed shapes (several concrete encodings each), "
        "every (user, password) over 3 users x 3 passwords incl. empty; Basic scheme matched case-insensitively (net/http)",
        "override: 9 methods x 9 values per carrier (header and form, both); two disagreeing carriers: either reading admissible",
    ]
    res = core.run_tlc("MC_Gates", cfg_text=core.cfg(constants=DEV, invariants=["GatesOK", "Emit"]), timeout=600)
    chk.expect_holds(res, "code steps = statement for the three gates")
    chk.add_tlc(res, "all auth / override / wrap cases")
    out = os.path.join(core.scratch(), "gates.ndjson")
    core.write_ndjson(out, res.lines)
    chk.absorb(core.run_harness(["gates", "replay", out], timeout=1800), "gates")
    chk.exhaustive = True
    for sw in (list(DEV) if thorough else list(DEV)[:2]):
        r = core.run_tlc("MC_Gates", cfg_text=core.cfg(constants=dict(DEV, **{sw: True}), invariants=["GatesOK"]), timeout=300)
        chk.expect_fails(r, "MC_Gates[%s]" % sw, "GatesOK")


def replay(doc):
    print("replay:", doc.get("desc", {}).get("what", "")[:2000])
    p = os.path.join(core.scratch(), "case.ndjson")
    core.write_ndjson(p, [doc["replay"]["case"]])
    s = core.run_harness(["gates", "replay", p])
    print(json.dumps(s["mismatches"], indent=1)[:3000])
    return 1 if s["mismatch_count"] else 0
