"""SELFTEST: sensitivity of the trace-validation binding (DESIGN 5.5): record a trace from the real code, corrupt ONE
recorded field, and require TLC to reject exactly that line. `./check SELFTEST` - evidence about the machinery."""
import json
import os
import random
from .. import core, patterns as P
from . import c01, c04, c07, c12, c14


def corrupt(path, pick, mutate, rng):
    lines = [json.loads(l) for l in open(path)]
    cands = [i for i, l in enumerate(lines) if pick(l)]
    i = rng.choice(cands[len(cands) // 3:] or cands)
    mutate(lines[i])
    core.write_ndjson(path, lines)
    return i + 1


def expect_reject(chk, name, ok, bad, want):
    chk.evaluations += 1
    res = dict(trace=name, corrupted_line=want, rejected_line=bad, accepted=ok)
    chk.extra.setdefault("selftests", []).append(res)
    chk.sample(res)
    if ok or bad != want:
        raise core.Inconclusive("binding self-test failed for %s: corrupted line %d, TLC says accepted=%s line=%s" % (name, want, ok, bad))


def run(chk):
    rng = random.Random(chk.seed)
    sc = core.scratch()
    # 1. LRU API trace: drop the most recent key from a recorded key order
    tr = os.path.join(sc, "st-lru.ndjson")
    core.run_harness(["lru", "record", tr, 20], env={"VERIF_SEED": chk.seed})
    want = corrupt(tr, lambda l: l.get("op") in ("set", "get") and len(l.get("keys", [])) >= 2,
                   lambda l: l["keys"].reverse(), rng)
    tconst = dict(c14.CONST, Keys={"-"}, Vals={0}, Caps={0})
    ok, bad, r = core.validate_trace("TraceCache", tr, constants=tconst)
    chk.add_tlc(r, "corrupted LRU trace")
    expect_reject(chk, "TraceCache (key order reversed)", ok, bad, want)
    # 2. registration trace: one handler of a recorded chain replaced
    tr = os.path.join(sc, "st-reg.ndjson")
    core.run_harness(["regrec", "record", tr, 6], env={"VERIF_SEED": chk.seed})
    want = corrupt(tr, lambda l: l.get("op") == "req" and len(l.get("chain", [])) >= 2,
                   lambda l: l["chain"].__setitem__(0, [99, 1]), rng)
    ok, bad, r = core.validate_trace("TraceReg", tr, constants=c12.DEV, timeout=900)
    chk.add_tlc(r, "corrupted registration trace")
    expect_reject(chk, "TraceReg (foreign handler in a chain)", ok, bad, want)
    # 3. chain trace: one IsAborted probe flipped
    tr = os.path.join(sc, "st-chain.ndjson")
    core.run_harness(["chainrec", "record", tr, 60], env={"VERIF_SEED": chk.seed})
    want = corrupt(tr, lambda l: len(l.get("log", [])) >= 2, lambda l: l["log"][1].__setitem__(2, not l["log"][1][2]), rng)
    ok, bad, r = core.validate_trace("TraceChain", tr, constants=dict(c04.DEV, MaxInt=127, AbortIdx=63), timeout=900)
    chk.add_tlc(r, "corrupted chain trace")
    expect_reject(chk, "TraceChain (IsAborted probe flipped)", ok, bad, want)
    # 4. selection trace: a recorded match moved to another route
    tr = os.path.join(sc, "st-match.ndjson")
    core.run_harness(["matchrec", "record", tr, 6], env={"VERIF_SEED": chk.seed})
    want = corrupt(tr, lambda l: l.get("op") == "match" and l.get("got", 0) > 0, lambda l: l.__setitem__("got", l["got"] + 1), rng)
    hdr = core.trace_line(tr, 1)
    os.makedirs(os.path.join(sc, "tracepool"), exist_ok=True)
    pd = os.path.join(sc, "tracepool", "PoolDef.tla")
    open(pd, "w").write(P.pooldef(hdr["pool"]))
    const = dict(c01.DEV, MaxLen=1, MaxTable=1, MethodSets=core.SetOfSets([["GET"]]), ReqMethods={"GET"})
    res = core.run_tlc("TraceIndex", cfg_text=core.cfg(init="TraceInit", next="TraceNext", constants=const, postcondition="Post"),
                       workers=1, timeout=900, env={"TRACE": tr}, extra_files=[pd], expect_fail=True)
    v = [o for o in res.lines if isinstance(o, dict) and "verdict" in o][-1]
    chk.add_tlc(res, "corrupted selection trace")
    expect_reject(chk, "TraceIndex (match moved to another route)", v["verdict"] == "ACCEPT", v.get("line") or v.get("diameter"), want)
    chk.traces = chk.evaluations


def replay(doc):
    return 2
