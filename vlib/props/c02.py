"""C02 - path parameters are exactly the substrings the pattern captured (cache on and off)."""
import os
from .. import core, patterns as P
from . import c01

# (an unsound match is a C02 matter too: the values of a route that cannot produce the path do not substitute back to it)
PAR = {"params", "unsound-match", "lookup-panic", "registration-panic", "trace"}


def run(chk):
    thorough = chk.tier == "thorough"
    pool = P.read_pool(os.path.join(core.SPEC, "pools", "params.txt"))
    chk.assumptions += [
        "distinct variable names; regex classes from the closed table of spec/RuxPattern.tla",
        "set-valued oracle: the reported parameters must be ONE admissible decomposition (equality where it is unique)",
        "handlers treat Params as read-only (cache hits return the stored map)",
    ]
    # every single-pattern table x every path; the harness looks every cell up on a plain router and, twice each
    # (miss then hit), on caching routers with capacity 1 (constant eviction) and 1000
    # (plus very many distinct URLs on a router with the largest possible cache, each looked up twice)
    c01.run_instance(chk, "params-abc", pool, 6 if thorough else 5, 1, chars=("/", "a", "b", "1", "."), only=PAR,
                     harness_env={"VERIF_MATCH_MANY": "1500000" if thorough else "400000"})
    c01.run_instance(chk, "params-digits", [p for p in pool if "dig" in p or "num" in p or "word" in p or "all" in p],
                     6 if thorough else 5, 2 if thorough else 1, chars=("/", "1", "0", "a", "_"), only=PAR)
    # UseEncodedPath: the router matches the ESCAPED path, '%' is a character like any other, parameters are the
    # escaped substrings (also inside handlers, also on cache hits)
    c01.run_instance(chk, "params-encoded", ["/a/{x}", "/{x}/{y}", "/a/{x:all}", "/a[/{x}]"], 6, 1, chars=("/", "a", "%", "2", "5"), only=PAR,
                     harness_env={"VERIF_MATCH_ENCODED": "1"})
    # StrictLastSlash: the two spellings of a URL are different paths (different values, maybe different routes), also in the cache
    c01.run_instance(chk, "params-strict", ["/a/{x:all}", "/a/{x}/", "/a/{x}", "/{x}/{y:rest1}"], 4, 2, chars=("/", "a", "b"), only=PAR,
                     extra_paths=["/a/", "/a/b/", "/a/a/", "/b/a/", "/a/b/a/"], harness_env={"VERIF_MATCH_STRICT": "1"})
    # two routes with the same skeleton and variable names but different regexes, registered for different methods in
    # both orders: each keeps its own regex
    c01.run_instance(chk, "params-same-skeleton", ["/a/{x}", "/a/{x:dig}", "/a/{x:ab}", "/a[/{x}]", "/a[/{x:dig}]"], 4, 2, chars=("/", "a", "1", "b"),
                     method_sets=(("GET",), ("POST",)), req_methods=("GET", "POST"), only=PAR)
    # outside the documented grammar: a variable's regex with a capturing (named or plain) group of its own. Registration may
    # refuse such a route; if it accepts it, the values still have to be the captured substrings (name <-> group alignment)
    c01.run_instance(chk, "params-groups-in-regex", ["/a/{x:dign}/{y}", "/{x:digc}/{y}", "/a/{x:dign}[/{y}]", "/{x}/{y:digc}"], 5, 1, chars=("/", "1", "a", "2"),
                     only=PAR - {"registration-panic"}, harness_env={"VERIF_MATCH_MAY_REJECT": "1"})
    if thorough:
        c01.run_instance(chk, "params-pairs", pool[::2], 5, 2, only=PAR)
    from . import c08
    c08.redispatch(chk, {"log", "crash"})   # a static route reached through HandleContext exposes no parameters
    chk.exhaustive = True
    c01.recorded(chk, 300 if thorough else 30)


def replay(doc):
    print("replay:", doc.get("desc", {}).get("what"))
    return 2
