"""C18 - binding picks its source from the request and round-trips data."""
import json
import os
from .. import core


def run(chk):
    chk.assumptions += [
        "source table and validator gating are model-checked; codec round trips use TLC as the enumerator of the value space with "
        "the identity as oracle (exploration strength for that sub-claim)",
        "representative struct {Age int (validate min:0); Name string; Ok bool; Tags []string}; encoders are Go's own",
        "malformed bodies: every proper prefix of valid JSON/XML encodings (must be an error), 21 garbage keys x 5 formats (no panic)",
    ]
    res = core.run_tlc("MC_Bind", cfg_text=core.cfg(constants=dict(D_DeleteHasBody=False), invariants=["TableOK", "Emit"]), timeout=600)
    chk.expect_holds(res, "source table: code order = statement; success implies valid")
    chk.add_tlc(res, "9 methods x 9 media types x params; 1248 struct values")
    out = os.path.join(core.scratch(), "bind.ndjson")
    lines = res.lines
    if chk.tier != "thorough":
        src = [l for l in lines if l["t"] == "source"]
        vals = [l for l in lines if l["t"] == "value"]
        lines = src + vals[(chk.seed % 3)::3]
    core.write_ndjson(out, lines)
    chk.absorb(core.run_harness(["bind", "replay", out], timeout=1800), "bind")
    chk.exhaustive = chk.tier == "thorough"
    r = core.run_tlc("MC_Bind", cfg_text=core.cfg(constants=dict(D_DeleteHasBody=True), invariants=["TableOK"]), timeout=300)
    chk.expect_fails(r, "MC_Bind[D_DeleteHasBody]", "TableOK")


def replay(doc):
    print("replay:", doc.get("desc", {}).get("what", "")[:2000])
    return 2
