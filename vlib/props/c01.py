"""C01 - route selection follows the documented pattern semantics (and C02 parameters, same machinery)."""
import os
from .. import core, patterns as P

DEV = dict(D_IrregularOverwrite=False, D_QuotedStart=False, D_VarlessOptionalIrregular=False)
ALPHA5 = ("/", "a", "b", "1", ".")


def index_cfg(maxlen, maxtable, method_sets=(("GET",),), req_methods=("GET",), emit=True, **dev):
    c = dict(DEV)
    c.update(dev)
    c.update(MaxLen=maxlen, MaxTable=maxtable, MethodSets=core.SetOfSets([list(m) for m in method_sets]),
             ReqMethods=set(req_methods))
    return core.cfg(constants=c, invariants=["Agree", "Sound", "Complete", "StaticWins", "ListingOK"] + (["Emit"] if emit else []))


def pool_file(pool, chars=ALPHA5, extra_paths=()):
    pd = os.path.join(core.scratch(), "PoolDef.tla")
    open(pd, "w").write(P.pooldef(pool, chars=chars, extra_paths=[tuple(p) for p in extra_paths]))
    return pd


def run_instance(chk, name, pool, maxlen, maxtable, chars=ALPHA5, method_sets=(("GET",),), req_methods=("GET",),
                 timeout=1800, family="match", only=None, harness_env=None, extra_paths=()):
    pd = pool_file(pool, chars, extra_paths)
    out = os.path.join(core.scratch(), "match-%s.ndjson" % name)
    import json
    n = [0]
    with open(out, "w") as fo:
        def cb(o):
            fo.write(json.dumps(o, separators=(",", ":")))
            fo.write("\n")
            n[0] += 1
        res = core.run_tlc("MC_Index", cfg_text=index_cfg(maxlen, maxtable, method_sets, req_methods), extra_files=[pd],
                           timeout=timeout, keep_lines=False, line_cb=cb)
    chk.expect_holds(res, "Lookup = Select (%s)" % name)
    chk.add_tlc(res, "%s: pool=%d maxlen=%d tables<=%d chars=%s methods=%s" % (name, len(pool), maxlen, maxtable, "".join(chars), list(req_methods)))
    s = core.run_harness([family, "replay", out], timeout=3600, env=harness_env)
    chk.absorb(s, family, only=only)
    os.remove(out)
    return res, s


NEG = [  # (switch, pool that exposes it, maxlen)
    ("D_IrregularOverwrite", ["/{x}", "/{x}/{y}", "/a"], 4),
    ("D_QuotedStart", ["/.a/{x}", "/a/{x}", "/{x}/{y}"], 5),
    ("D_VarlessOptionalIrregular", ["/a/b[.1]", "/a/{x}", "/{x}/{y}"], 4),
]


def negs(chk, which=None):
    for sw, pool, ml in NEG:
        if which and sw not in which:
            continue
        pd = pool_file(pool)
        r = core.run_tlc("MC_Index", cfg_text=index_cfg(ml, 2, emit=False, **{sw: True}), extra_files=[pd], timeout=300)
        chk.expect_fails(r, "MC_Index[%s]" % sw, "Agree")


SEL = {"selection", "lost-route", "unsound-match", "lookup-panic", "registration-panic", "trace", "listing"}


def run(chk):
    thorough = chk.tier == "thorough"
    pool = P.read_pool(os.path.join(core.SPEC, "pools", "pool49.txt"))
    chk.assumptions += [
        "patterns from the documented grammar, at most one variable per segment, literals without regex meaning except '.'",
        "regex classes limited to the closed table of spec/RuxPattern.tla (any,dig,num,word,all,rest1)",
        "no two static routes with the same method and path (quantifier of C01)",
    ]
    if thorough:
        run_instance(chk, "i-pool49-len6-t2", pool, 6, 2, only=SEL, harness_env={"VERIF_MATCH_CONC": "1"})
        run_instance(chk, "ii-pool24-len5-t3", pool[::2][:24] + ["/.a/{x}"], 5, 3, only=SEL)
    else:
        run_instance(chk, "i-pool49-len5-t2", pool, 5, 2, only=SEL, harness_env={"VERIF_MATCH_CONC": "1"})
    # several methods: routes with one or two methods sharing a first segment (the index is keyed by method + first segment,
    # the cache by method + path), requests for both methods, tables of up to 3 routes
    run_instance(chk, "iii-methods", ["/a/{x}", "/a/{x:dig}", "/a/{x}/b", "/{x}/{y}", "/a/1"] + (["/a[/{x}]", "/*"] if thorough else []),
                 4, 3, chars=("/", "a", "1", "b"), method_sets=(("GET",), ("POST",), ("GET", "POST")), req_methods=("GET", "POST"), only=SEL)
    # HEAD: a route that allows HEAD wins over the GET fallback, whichever tier either of them lives in
    run_instance(chk, "iv-head", ["/a/{x}", "/a/1", "/{x}/{y}", "/a[/{x}]"], 4, 3, chars=("/", "a", "1"),
                 method_sets=(("GET",), ("HEAD",), ("GET", "HEAD")), req_methods=("GET", "HEAD"), only=SEL)
    # StrictLastSlash: paths are taken literally, "/a/" is a path of its own (a variable that may be empty matches its tail)
    run_instance(chk, "v-strict", ["/a/{x:all}", "/a[/{x}]", "/a/{x}/", "/a/{x}", "/{x}/{y:all}", "/a/", "/a", "/{x}/"], 4, 2, chars=("/", "a", "b"), only=SEL,
                 extra_paths=["/a/", "/b/", "/a/b/", "/a/a/", "/b/a/", "/a/b/a/"], harness_env={"VERIF_MATCH_STRICT": "1"})
    chk.exhaustive = True
    negs(chk, None if thorough else ["D_IrregularOverwrite"])
    recorded(chk, 400 if thorough else 40)
    if thorough:   # the repository's own tests as a trace source
        from . import repo
        repo.validate(chk)


def replay(doc):
    print("replay:", doc.get("desc", {}).get("what"))
    print("table:", doc.get("desc", {}).get("table"), "request:", doc.get("desc", {}).get("method"), doc.get("desc", {}).get("path"))
    return 2


def recorded(chk, n, aspects=None):
    """O3: random big tables (<=10 routes, nine methods, fresh patterns) recorded from the real router, validated by TLC."""
    import json
    tr = os.path.join(core.scratch(), "match-trace.ndjson")
    s = core.run_harness(["matchrec", "record", tr, n], env={"VERIF_SEED": chk.seed})
    hdr = core.trace_line(tr, 1)
    os.makedirs(os.path.join(core.scratch(), "tracepool"), exist_ok=True)
    pd = os.path.join(core.scratch(), "tracepool", "PoolDef.tla")
    open(pd, "w").write(P.pooldef(hdr["pool"]))
    const = dict(DEV, MaxLen=1, MaxTable=1, MethodSets=core.SetOfSets([["GET"]]), ReqMethods={"GET"})
    c = core.cfg(init="TraceInit", next="TraceNext", constants=const, postcondition="Post")
    res = core.run_tlc("TraceIndex", cfg_text=c, workers=1, timeout=1800, env={"TRACE": tr}, extra_files=[pd], expect_fail=True)
    verdict = [o for o in res.lines if isinstance(o, dict) and "verdict" in o]
    if not verdict or res.violated is not None:
        raise core.Inconclusive("TraceIndex did not finish: %s\n%s" % (res.error_text, res.raw_tail[-1500:]))
    v = verdict[-1]
    if v.get("specbad"):
        raise core.Inconclusive("spec-defect: operational Lookup and declarative Select disagree on recorded line %d: %s" % (
            v["specbad"], core.trace_line(tr, v["specbad"])))
    chk.add_tlc(res, "trace validation: %d recorded tables, %d events" % (s["cases"], s["info"]["events"]))
    chk.traces += s["cases"]
    chk.extra["recorded"] = dict(tables=s["cases"], events=s["info"]["events"])
    chk.sample(dict(recorded_event=core.trace_line(tr, 5)))
    if v["verdict"] != "ACCEPT":
        bad = v.get("line") or v.get("diameter")
        ev = core.trace_line(tr, bad)
        # the table of that scenario
        table = []
        with open(tr) as f:
            for i, ln in enumerate(f, 1):
                o = json.loads(ln)
                if o["op"] == "reset":
                    table = []
                elif o["op"] == "reg":
                    table.append(",".join(o["ms"]) + " " + o["text"])
                if i >= bad:
                    break
        chk.violation(dict(kind="match-trace", aspect="trace", line=bad, table=table, event=ev,
                           what="recorded Match result is not what C01/C02 select: %s %s on %s -> got route #%s params %s" % (
                               ev.get("m"), ev.get("p"), table, ev.get("got"), ev.get("ps"))),
                      dict(family="matchrec", seed=chk.seed, n=n, line=bad, table=table, event=ev))
