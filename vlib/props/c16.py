"""C16 - Resource registers exactly the documented REST table for the controller."""
import json
import os
from .. import core


def run(chk):
    chk.assumptions += [
        "controller types are generated (harness/cmd/ruxh/resctl_gen.go): one per subset of the seven actions, with and without Uses()",
        "base paths '/', '/api/', '/ApI/' and '' (the resource name is appended to the base path as is)",
        "registration order follows map iteration: every case is registered 4 times",
    ]
    c = core.cfg(constants=dict(D_EmptyCheckBeforeTrim=False), invariants=["TableOK", "DetOK", "Emit"])
    res = core.run_tlc("MC_Resource", cfg_text=c, timeout=600)
    chk.expect_holds(res, "operational Resource table = documented table")
    chk.add_tlc(res, "128 action subsets x 4 base paths")
    lines = res.lines
    if False:   # (all 512 lines are cheap enough for the quick tier)
        seen = {}
        for i, l in enumerate(sorted(lines, key=lambda l: (sorted(l["impl"]), l["base"]))):
            k = tuple(sorted(l["impl"]))
            if k not in seen or (len(seen) + i) % 3 == 0:
                seen[k] = l
        lines = list(seen.values())
    out = os.path.join(core.scratch(), "resource.ndjson")
    core.write_ndjson(out, lines)
    s = core.run_harness(["resource", "replay", out], timeout=1800)
    chk.absorb(s, "resource")
    chk.exhaustive = True


def replay(doc):
    print("replay:", doc.get("desc", {}).get("what", "")[:2000])
    p = os.path.join(core.scratch(), "case.ndjson")
    core.write_ndjson(p, [doc["replay"]["case"]])
    s = core.run_harness(["resource", "replay", p])
    print(json.dumps(s["mismatches"], indent=1)[:3000])
    return 1 if s["mismatch_count"] else 0
