"""C07 - the dynamic-route cache never changes what a request observes."""
import json
import os
from .. import core, patterns as P

ALL9 = ["GET", "POST", "PUT", "PATCH", "DELETE", "OPTIONS", "HEAD", "CONNECT", "TRACE"]
POOL = ["/a/{x}", "/{x}/{y}", "/a/1", "/a/{x:dig}", "/{x}", "/a[/{x}]", "/*", "/a/{x}/b"]
TABLES = {
    "overlap": [("/a/{x}", ["GET"]), ("/{x}/{y}", ["GET"]), ("/a/1", ["GET"]), ("/a/{x:dig}", ["POST"]), ("/{x}", ["GET", "POST"])],
    "headget": [("/a/{x}", ["GET"]), ("/{x}", ["HEAD"]), ("/a[/{x}]", ["GET"]), ("/{x}/{y}", ["HEAD", "DELETE"])],
    "notallowed": [("/a/{x}", ["POST"]), ("/a/{x:dig}", ["PUT"]), ("/{x}/{y}", ["DELETE"]), ("/*", ALL9), ("/a/{x}/b", ["GET"])],
}
REQUESTS = [("GET", "/a/1"), ("GET", "/a/a"), ("POST", "/a/1"), ("HEAD", "/a/1"), ("GET", "/1/a"), ("DELETE", "/a/a"),
            ("GET", "/a"), ("OPTIONS", "/a/1"), ("HEAD", "/a")]
DEV = dict(D_IrregularOverwrite=False, D_QuotedStart=False, D_VarlessOptionalIrregular=False, D_EmptyCheckBeforeTrim=False,
           D_InterceptRaw=False, D_FallbackBeforeHead=False, D_AllowProbeHeadFallback=False,
           D_CacheKeyFirstSegment=False, D_CacheKeyNoMethod=False, D_CacheSkipsStable=False,
           D_EvictFront=False)
INVS = ["CacheBounded", "CacheSound"]
PROPS = ["MCTransparent", "MCFilledAfterDynamic", "MCRepeatHits"]


def pooldef(requests=REQUESTS):
    pd = os.path.join(core.scratch(), "PoolDef.tla")
    extra = sorted(set(tuple(p) for _, p in requests))
    open(pd, "w").write(P.pooldef(POOL, chars=("/", "a", "1"), extra_paths=extra, tables=TABLES, requests=requests))
    return pd


def ccfg(tables, optsets, caps, emit=True, invs=INVS, props=PROPS, **dev):
    c = dict(DEV)
    c.update(dev)
    c.update(MaxLen=1, MaxTable=9, MethodSets=core.SetOfSets([["GET"]]), ReqMethods={"GET"},
             TableNames=set(tables), OptSets=set(optsets), Caps=set(caps))
    c.pop("D_EvictFront")
    return core.cfg(constants=c, invariants=list(invs), properties=list(props), view="View", action_constraints=["Emit"] if emit else [])


def explore(chk):
    thorough = chk.tier == "thorough"
    chk.assumptions += [
        "handlers treat Params as read-only; registration is finished before the first request",
        "complete state graph over 3 fixed tables x 9 requests (incl. HEAD fallback, 405 probes) x capacities 0..%d" % (3 if thorough else 2),
    ]
    pd = pooldef()
    out = os.path.join(core.scratch(), "rcache.ndjson")
    caps = [0, 1, 2, 3] if thorough else [0, 1, 2]
    opt = ["TT", "TF", "FT", "FF"] if thorough else ["TT", "FF"]
    with open(out, "w") as fo:
        fo.write(json.dumps(dict(hdr=1, tables={n: [[P.to_rux(p), ms] for p, ms in rows] for n, rows in TABLES.items()})) + "\n")

        def cb(o):
            fo.write(json.dumps(o, separators=(",", ":")))
            fo.write("\n")
        res = core.run_tlc("MC_RouterCache", cfg_text=ccfg(sorted(TABLES), opt, caps), extra_files=[pd], timeout=2400,
                           keep_lines=False, line_cb=cb)
    chk.expect_holds(res, "Transparent / FilledAfterDynamic on the complete graph")
    chk.add_tlc(res, "complete graph: tables %s opts %s caps %s" % (sorted(TABLES), opt, caps))
    s = core.run_harness(["rcache", "replay", out], timeout=3000)
    os.remove(out)
    return res, s, pd


def finish(chk, res, s, pd, only):
    chk.absorb(s, "rcache", only=only)
    chk.exhaustive = True


def run(chk):
    res, s, pd = explore(chk)
    finish(chk, res, s, pd, {"transparency", "panic"})
    thorough = chk.tier == "thorough"
    for sw, inv in [("D_CacheKeyNoMethod", "MCTransparent"), ("D_CacheKeyFirstSegment", "MCFilledAfterDynamic")]:
        r = core.run_tlc("MC_RouterCache", cfg_text=ccfg(["overlap"], ["FF"], [1, 2], emit=False,
                                                         invs=[], props=[inv], **{sw: True}), extra_files=[pd], timeout=600)
        chk.expect_fails(r, "MC_RouterCache[%s]" % sw, inv)


def replay(doc):
    print("replay:", doc.get("desc", {}).get("what"))
    return 2
