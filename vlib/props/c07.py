"""C07 - the dynamic-route cache never changes what a request observes."""
import json
import os
from .. import core, patterns as P

ALL9 = ["GET", "POST", "PUT", "PATCH", "DELETE", "OPTIONS", "HEAD", "CONNECT", "TRACE"]
POOL = ["/a/{x}", "/{x}/{y}", "/a/1", "/a/{x:dig}", "/{x}", "/a[/{x}]", "/*", "/a/{x}/b", "/a/a[.1]", "/a/{x}/"]
TABLES = {
    "overlap": [("/a/{x}", ["GET"]), ("/{x}/{y}", ["GET"]), ("/a/1", ["GET"]), ("/a/{x:dig}", ["POST"]), ("/{x}", ["GET", "POST"])],
    "headget": [("/a/{x}", ["GET"]), ("/{x}", ["HEAD"]), ("/a[/{x}]", ["GET"]), ("/{x}/{y}", ["HEAD", "DELETE"])],
    # overlapping dynamic routes whose method sets intersect: what one method cached must not answer another method
    "methodsets": [("/a/{x:dig}", ["POST", "PUT"]), ("/a/{x}", ["GET", "POST"]), ("/{x}/{y}", ["PUT", "DELETE"])],
    # a dynamic route WITHOUT variables (optional part only): it is matched by regex and must be cached like the others
    "optional": [("/a/a[.1]", ["GET"]), ("/a/{x}", ["GET", "POST"])],
    # StrictLastSlash: the two spellings of a URL are different requests (and may be different routes)
    "strict": [("/a/{x}", ["GET"]), ("/a/{x}/", ["GET", "POST"])],
    "strict1": [("/a/{x}/", ["GET"])],
    # a fallback route for SOME methods only: what it answered for one method must not answer (or be counted for) another
    "fallback": [("/*", ["GET"]), ("/a/{x}", ["POST"])],
    # UseEncodedPath: the router is given the ESCAPED path of the URL; "/a/%61" and "/a/a" are different requests (different
    # values, different cache entries) although they decode to the same text
    "encoded": [("/a/{x}", ["GET"]), ("/{x}/{y}", ["GET", "POST"])],
    "notallowed": [("/a/{x}", ["POST"]), ("/a/{x:dig}", ["PUT"]), ("/{x}/{y}", ["DELETE"]), ("/*", ALL9), ("/a/{x}/b", ["GET"])],
}
REQUESTS = [("GET", "/a/1"), ("GET", "/a/a"), ("POST", "/a/1"), ("HEAD", "/a/1"), ("GET", "/1/a"), ("DELETE", "/a/a"),
            ("GET", "/a"), ("OPTIONS", "/a/1"), ("HEAD", "/a"), ("PUT", "/a/1"), ("HEAD", "/a/a"), ("GET", "/a/1/"), ("POST", "/1/a"), ("GET", "/a/%61")]
DEV = dict(D_IrregularOverwrite=False, D_QuotedStart=False, D_VarlessOptionalIrregular=False, D_EmptyCheckBeforeTrim=False,
           D_InterceptRaw=False, D_FallbackBeforeHead=False, D_AllowProbeHeadFallback=False,
           D_CacheKeyFirstSegment=False, D_CacheKeyNoMethod=False, D_CacheSkipsStable=False,
           D_EvictFront=False)
INVS = ["CacheBounded", "CacheSound"]
PROPS = ["MCTransparent", "MCFilledAfterDynamic", "MCRepeatHits"]


def pooldef(requests=REQUESTS):
    pd = os.path.join(core.scratch(), "PoolDef.tla")
    extra = sorted(set(tuple(p) for _, p in requests))
    open(pd, "w").write(P.pooldef(POOL, chars=("/", "a", "1"), extra_paths=extra, tables=TABLES, requests=requests))
    return pd


def ccfg(tables, optsets, caps, emit=True, invs=INVS, props=PROPS, **dev):
    c = dict(DEV)
    c.update(dev)
    c.update(MaxLen=1, MaxTable=9, MethodSets=core.SetOfSets([["GET"]]), ReqMethods={"GET"},
             TableNames=set(tables), OptSets=set(optsets), Caps=set(caps))
    c.pop("D_EvictFront")
    return core.cfg(constants=c, invariants=list(invs), properties=list(props), view="View", action_constraints=["Emit"] if emit else [])


def explore(chk):
    thorough = chk.tier == "thorough"
    chk.assumptions += [
        "handlers treat Params as read-only; registration is finished before the first request",
        "complete state graph over 3 fixed tables x 9 requests (incl. HEAD fallback, 405 probes) x capacities 0..%d" % (3 if thorough else 2),
    ]
    pd = pooldef()
    out = os.path.join(core.scratch(), "rcache.ndjson")
    caps = [0, 1, 2, 3] if thorough else [0, 1, 2]
    opt = ["TT", "TF", "FT", "FF"] if thorough else ["TT", "FF"]
    with open(out, "w") as fo:
        fo.write(json.dumps(dict(hdr=1, tables={n: [[P.to_rux(p), ms] for p, ms in rows] for n, rows in TABLES.items()},
                                 alphabet=[[m, p] for m, p in REQUESTS])) + "\n")

        def cb(o):
            fo.write(json.dumps(o, separators=(",", ":")))
            fo.write("\n")
        res = core.run_tlc("MC_RouterCache", cfg_text=ccfg(sorted(TABLES), opt, caps), extra_files=[pd], timeout=2400,
                           keep_lines=False, line_cb=cb)
    chk.expect_holds(res, "Transparent / FilledAfterDynamic on the complete graph")
    chk.add_tlc(res, "complete graph: tables %s opts %s caps %s" % (sorted(TABLES), opt, caps))
    s = core.run_harness(["rcache", "replay", out], timeout=3000)
    os.remove(out)
    return res, s, pd


def finish(chk, res, s, pd, only):
    chk.absorb(s, "rcache", only=only)
    chk.exhaustive = True


def run(chk):
    res, s, pd = explore(chk)
    finish(chk, res, s, pd, {"transparency", "panic"})
    thorough = chk.tier == "thorough"
    recorded(chk, 60 if thorough else 10, {"transparency", "panic"})
    for sw, inv in [("D_CacheKeyNoMethod", "MCTransparent"), ("D_CacheKeyFirstSegment", "MCFilledAfterDynamic")]:
        r = core.run_tlc("MC_RouterCache", cfg_text=ccfg(["overlap"], ["FF"], [1, 2], emit=False,
                                                         invs=[], props=[inv], **{sw: True}), extra_files=[pd], timeout=600)
        chk.expect_fails(r, "MC_RouterCache[%s]" % sw, inv)


def recorded(chk, n, only):
    """O3: random tables / options / capacities 0..5, 100-200 requests each, validated step by step by TLC"""
    tr = os.path.join(core.scratch(), "rcache-trace.ndjson")
    s = core.run_harness(["rcacherec", "record", tr, n], env={"VERIF_SEED": chk.seed})
    chk.absorb(s, "rcacherec", only=only)
    hdr = core.trace_line(tr, 1)
    os.makedirs(os.path.join(core.scratch(), "tracepool"), exist_ok=True)
    pd = os.path.join(core.scratch(), "tracepool", "PoolDef.tla")
    open(pd, "w").write(P.pooldef(hdr["pool"], extra_paths=[tuple(p) for p in hdr["paths"]]))
    const = dict(DEV)
    const.pop("D_EvictFront")
    const.update(MaxLen=1, MaxTable=1, MethodSets=core.SetOfSets([["GET"]]), ReqMethods={"GET"}, Caps={0})
    c = core.cfg(init="TraceInit", next="TraceNext", constants=const, invariants=["CacheBounded"], postcondition="Post")
    res = core.run_tlc("TraceRouterCache", cfg_text=c, workers=1, timeout=1800, env={"TRACE": tr}, extra_files=[pd], expect_fail=True)
    verdict = [o for o in res.lines if isinstance(o, dict) and "verdict" in o]
    if not verdict or res.violated is not None:
        raise core.Inconclusive("TraceRouterCache did not finish: %s\n%s" % (res.error_text, res.raw_tail[-1500:]))
    v = verdict[-1]
    if v.get("specbad"):
        raise core.Inconclusive("spec-defect: TransparentA/FilledAfterDynamicA fail in the specification on recorded line %d: %s" % (
            v["specbad"], core.trace_line(tr, v["specbad"])))
    chk.add_tlc(res, "trace validation: %d recorded request histories, %d events" % (s["cases"], s["info"]["events"]))
    chk.traces += s["cases"]
    chk.extra["recorded"] = dict(histories=s["cases"], events=s["info"]["events"])
    chk.sample(dict(recorded_event=core.trace_line(tr, 12)))
    if v["verdict"] != "ACCEPT":
        bad = v.get("line") or v.get("diameter")
        ev = core.trace_line(tr, bad)
        table = []
        with open(tr) as f:
            for i, ln in enumerate(f, 1):
                o = json.loads(ln)
                if o["op"] == "reset":
                    table = [dict(hmna=o["hmna"], hfb=o["hfb"], cap=o["cap"])]
                elif o["op"] == "reg":
                    table.append(",".join(o["ms"]) + " " + o["text"])
                if i >= bad:
                    break
        aspect = "cache-content" if v.get("keysonly") == bad else "transparency"
        if aspect not in only:
            chk.extra["mismatches_of_other_properties"] = chk.extra.get("mismatches_of_other_properties", 0) + 1
            return
        chk.violation(dict(kind="rcache-trace", aspect=aspect, line=bad, table=table, event=ev,
                           what="recorded request is not a step of RuxRouterCache: %s %s on %s resolved to %s, cache keys %s" % (
                               ev.get("m"), ev.get("p"), table, {k: ev.get(k) for k in ("kind", "r", "allow")}, ev.get("keys"))),
                      dict(family="rcacherec", seed=chk.seed, n=n, line=bad))


def replay(doc):
    print("replay:", doc.get("desc", {}).get("what"))
    return 2
