"""C15 - a URL built for a named route is routed back to that route."""
import json
import os
from .. import core, patterns as P


def run(chk):
    thorough = chk.tier == "thorough"
    chk.assumptions += [
        "named routes without optional parts; values drawn from each class's alphabet incl. inner space, non-ASCII, '%', '?', '#'",
        "precondition (stated in RuxURL): the built path is a fixed point of the request normalisation and decomposes uniquely; "
        "other cases are counted as skipped",
    ]
    pool = P.read_pool(os.path.join(core.SPEC, "pools", "named.txt"))
    pd = os.path.join(core.scratch(), "PoolDef.tla")
    open(pd, "w").write(P.pooldef(pool))
    c = core.cfg(constants=dict(MaxOps=4 if thorough else 3, D_EmptyCheckBeforeTrim=False), invariants=["RoundTripInv", "Emit"])
    res = core.run_tlc("MC_URL", cfg_text=c, extra_files=[pd], timeout=1200)
    chk.expect_holds(res, "Subst then Decomps gives the values back")
    chk.add_tlc(res, "%d named patterns x all value assignments; naming programs <=%d calls" % (len(pool), 4 if thorough else 3))
    out = os.path.join(core.scratch(), "url.ndjson")
    core.write_ndjson(out, res.lines)
    s = core.run_harness(["url", "replay", out], timeout=1800)
    chk.absorb(s, "url")
    chk.extra["skipped"] = s.get("info", {})
    chk.exhaustive = True


def replay(doc):
    print("replay:", doc.get("desc", {}).get("what", "")[:2000])
    p = os.path.join(core.scratch(), "case.ndjson")
    core.write_ndjson(p, [doc["replay"]["case"]])
    s = core.run_harness(["url", "replay", p])
    print(json.dumps(s["mismatches"], indent=1)[:3000])
    return 1 if s["mismatch_count"] else 0
