"""C05 - Abort stops every later handler and only later handlers."""
from .. import core
from . import c04

ABORT = {"log", "enter", "probe", "crash", "registration-panic", "writer", "limit", "unhealthy"}


def run(chk):
    thorough = chk.tier == "thorough"
    chk.assumptions += [
        "abort scripts A (abort), AN (abort then Next), NA (Next then abort), AS (AbortWithStatus(403) then Next) at every position",
        "'within the documented handler limit' = executed chain of at most 63 handlers; 64..66 are explored and attributed to F20",
    ]
    ab = ["A", "AN", "NA", "AS"]
    c04.instance(chk, "all", "all", 1, 5 if thorough else 4, ["N", "R"] + ab, kinds=("route", "notfound", "notallowed"), only=ABORT,
                 extra_invs=("DispatchOK",))
    c04.instance(chk, "odd", "odd", 2 if thorough else 58, 63, ab, base="N", only=ABORT)
    c04.instance(chk, "odd-nn", "odd", 2 if thorough else 30, 63 if thorough else 33, ab, base="NN", only=ABORT)
    c04.instance(chk, "uniform", "uniform", 1, 63, ["AN", "NA"] + (["A", "AS"] if thorough else []), only=ABORT)
    # an abort followed by a panic (with and without an OnPanic hook): the abort mark must not outlive the request
    c04.instance(chk, "abort-panic", "all", 1, 3, ["N", "A", "NP", "AN", "P"], kinds=("route", "notfound"), only=ABORT,
                 hooks=("none", "status"), extra_invs=("DispatchOK",))
    # the router's built-in 405 / 404 handler behind global middleware that aborts (or not): it is the last handler of the chain
    c04.instance(chk, "builtin-405", "alltail", 2, 4 if thorough else 3, ["N", "R"] + ab, base="D405", kinds=("na-builtin",), only=ABORT, extra_invs=("DispatchOK",))
    c04.instance(chk, "builtin-404", "alltail", 2, 4 if thorough else 3, ["N", "R"] + ab, base="D404", kinds=("nf-builtin",), only=ABORT, extra_invs=("DispatchOK",))
    c04.library(chk, ABORT, maxn=3 if thorough else 2, extra=("N", "NA"))
    from . import c08
    c08.redispatch(chk, ABORT)
    chk.exhaustive = True
    c04.recorded(chk, 2000 if thorough else 300, ABORT)
    # beyond the sentinel: registration accepts the chain (global middleware is not counted), Abort no longer stops it
    c04.beyond_limit(chk, ["A", "R"])
    c04.neg_creeps(chk)


def replay(doc):
    return c04.replay(doc)
