"""C14 - the route cache is a bounded LRU map and repeats are served from it."""
import os
from .. import core

CONST = dict(D_EvictFront=False, D_GetNoTouch=False, D_SetNoReplace=False, D_OffByOne=False)
INVS = ["Refines", "IndexOK", "Bounded", "Distinct"]


def mc_cfg(keys, vals, caps, emit=True, **dev):
    c = dict(CONST)
    c.update(dev)
    c.update(Keys=set(keys), Vals=set(vals), Caps=set(caps))
    return core.cfg(init="MCInit", next="MCNext", constants=c, invariants=INVS, properties=["MCLaws"],
                    view="View", action_constraints=["Emit"] if emit else [])


def api_level(chk):
    thorough = chk.tier == "thorough"
    keys = ["a", "b", "c", "d"] if thorough else ["a", "b", "c"]
    caps = [0, 1, 2, 3] if thorough else [0, 1, 2]
    vals = [1, 2]
    # O1 + export
    res = core.run_tlc("MC_Cache", cfg_text=mc_cfg(keys, vals, caps), timeout=900)
    chk.expect_holds(res, "LRU laws / refinement")
    chk.add_tlc(res, "complete graph keys=%s caps=%s" % (keys, caps))
    chk.exhaustive = True
    # O2: every edge of the graph replayed on cachedRoutes
    cases = os.path.join(core.scratch(), "lru-cases.ndjson")
    core.write_ndjson(cases, res.lines)
    chk.absorb(core.run_harness(["lru", "replay", cases]), "lru")
    # non-vacuity: each deviation switch must break an invariant of the specification
    negs = [("D_EvictFront", None), ("D_GetNoTouch", "Refines"), ("D_SetNoReplace", "Refines"), ("D_OffByOne", None)]
    for sw, inv in (negs if thorough else negs[:2]):
        r = core.run_tlc("MC_Cache", cfg_text=mc_cfg(keys[:3], vals, [1, 2], emit=False, **{sw: True}), timeout=300)
        chk.expect_fails(r, "MC_Cache[%s]" % sw, inv)
    # O3: long random op sequences recorded from the real cache, validated by TLC
    n = 400 if thorough else 40
    tr = os.path.join(core.scratch(), "lru-trace.ndjson")
    s = core.run_harness(["lru", "record", tr, n], env={"VERIF_SEED": chk.seed})
    tconst = dict(CONST, Keys=set(["-"]), Vals=set([0]), Caps=set([0]))
    ok, bad, r = core.validate_trace("TraceCache", tr, constants=tconst, invariants=["TraceRefines", "TraceBounded"])
    chk.add_tlc(r, "trace validation, %d recorded sequences" % s["cases"])
    chk.traces += s["cases"]
    chk.extra["recorded"] = dict(sequences=s["cases"], events=s["info"]["events"])
    if not ok:
        ev = core.trace_line(tr, bad)
        chk.violation(dict(kind="lru-trace", line=bad, event=ev, what="recorded cache step is not a step of RuxCache"),
                      dict(family="lru-trace", seed=chk.seed, n=n, line=bad))
    chk.sample(dict(trace_event=core.trace_line(tr, 2)))
    # concurrent: lock-ordered hook events
    trc = os.path.join(core.scratch(), "lruconc-trace.ndjson")
    s = core.run_harness(["lruconc", "record", trc, 30 if thorough else 6], env={"VERIF_SEED": chk.seed})
    chk.absorb(s, "lruconc")
    ok, bad, r = core.validate_trace("TraceCache", trc, constants=tconst, invariants=["TraceRefines", "TraceBounded"])
    chk.add_tlc(r, "trace validation, %d concurrent histories in lock order" % s["cases"])
    chk.traces += s["cases"]
    chk.extra["recorded_concurrent"] = dict(histories=s["cases"], events=s["info"]["events"])
    if not ok:
        ev = core.trace_line(trc, bad)
        chk.violation(dict(kind="lru-conc-trace", line=bad, event=ev,
                           what="lock-ordered concurrent cache history is not a behaviour of RuxCache"),
                      dict(family="lruconc-trace", seed=chk.seed, line=bad))


def router_level(chk):
    """Second sentence of C14: the entry for exactly that method and path is present after a dynamic request."""
    from . import c07
    res, s, pd = c07.explore(chk)
    chk.absorb(s, "rcache", only={"cache-content", "cache-fill", "panic"})
    c07.recorded(chk, 40 if chk.tier == "thorough" else 8, {"cache-content", "cache-fill", "panic"})
    r = core.run_tlc("MC_RouterCache", cfg_text=c07.ccfg(["overlap"], ["FF"], [1, 2], emit=False, invs=[],
                                                     props=["MCFilledAfterDynamic"], D_CacheKeyFirstSegment=True),
                     extra_files=[pd], timeout=600)
    chk.expect_fails(r, "MC_RouterCache[D_CacheKeyFirstSegment]", "MCFilledAfterDynamic")


def run(chk):
    chk.assumptions += [
        "cache keys are opaque strings; values are route copies identified by name",
        "Has() is implemented as Get() and refreshes recency; the statement allows either",
    ]
    api_level(chk)
    router_level(chk)


def replay(doc):
    print("replay:", doc.get("desc"))
    r = doc["replay"]
    if r.get("family") == "lru":
        import json
        p = os.path.join(core.scratch(), "case.ndjson")
        core.write_ndjson(p, [r["case"]])
        s = core.run_harness(["lru", "replay", p])
        print(json.dumps(s["mismatches"], indent=1))
        return 1 if s["mismatch_count"] else 0
    print("re-run ./check C14 with VERIF_SEED=%s" % r.get("seed"))
    return 2
