"""C12 - groups add prefix and middleware to their own routes and leave no residue."""
import json
import os
from .. import core

DEV = dict(D_GroupAliasesCallerList=False, D_NoRestoreMw=False, D_UseLeaksToParent=False, D_RouteMwBeforeGroup=False, D_EmptyCheckBeforeTrim=False)
GRP = {"path", "middleware", "chain", "routes", "registration-panic", "trace", "caller-list"}


def rcfg(acts, depth, routes, emit=True, **dev):
    c = dict(DEV)
    c.update(dev)
    c.update(MaxActs=acts, MaxDepth=depth, MaxRoutes=routes)
    return core.cfg(constants=c, invariants=["RoutesAgree", "NoResidue", "CallerListIntact"] + (["Emit"] if emit else []))


def explore(chk, acts, depth, routes, only=GRP):
    out = os.path.join(core.scratch(), "reg.ndjson")
    with open(out, "w") as fo:
        def cb(o):
            fo.write(json.dumps(o, separators=(",", ":")))
            fo.write("\n")
        res = core.run_tlc("MC_Reg", cfg_text=rcfg(acts, depth, routes), timeout=2400, keep_lines=False, line_cb=cb)
    chk.expect_holds(res, "operational save/restore = lexical scoping")
    chk.add_tlc(res, "all programs <=%d statements, depth<=%d, routes<=%d" % (acts, depth, routes))
    s = core.run_harness(["reg", "replay", out], timeout=3000)
    chk.absorb(s, "reg", only=only)
    os.remove(out)


def recorded(chk, n):
    tr = os.path.join(core.scratch(), "reg-trace.ndjson")
    s = core.run_harness(["regrec", "record", tr, n], env={"VERIF_SEED": chk.seed})
    ok, bad, r = core.validate_trace("TraceReg", tr, constants=DEV, invariants=["RoutesAgree", "NoResidue"], timeout=1800)
    chk.add_tlc(r, "trace validation: %d recorded programs, %d events" % (s["cases"], s["info"]["events"]))
    chk.traces += s["cases"]
    chk.extra["recorded"] = dict(programs=s["cases"], events=s["info"]["events"])
    chk.sample(dict(recorded_event=core.trace_line(tr, 3)))
    if not ok:
        ev = core.trace_line(tr, bad)
        chk.violation(dict(kind="reg-trace", aspect="trace", line=bad, event=ev,
                           what="recorded registration/request event is not a step of RuxReg: %s" % json.dumps(ev)[:400]),
                      dict(family="regrec", seed=chk.seed, n=n, line=bad))


def regpaths(chk):
    """the path a route gets inside nested groups, with and without StrictLastSlash (RuxPath.RegPath, the function RuxReg uses)"""
    from . import c11
    r = c11.mc(chk, "text", 4 if chk.tier == "thorough" else 3, 2, 1, ["/", "a", "."])
    chk.expect_holds(r, "RegPath laws")
    chk.add_tlc(r, "registered paths: all route texts <=%d and prefix lists <=2 over {/, a, .}, strict and not" % (4 if chk.tier == "thorough" else 3))
    cases = os.path.join(core.scratch(), "regpath-cases.ndjson")
    core.write_ndjson(cases, r.lines)
    chk.absorb(core.run_harness(["path", "replay", cases], timeout=3000), "path", only={"regpath", "panic"})


def negs(chk, which):
    for sw in which:
        r = core.run_tlc("MC_Reg", cfg_text=rcfg(4, 2, 2, emit=False, **{sw: True}), timeout=600)
        chk.expect_fails(r, "MC_Reg[%s]" % sw, None)


def run(chk):
    thorough = chk.tier == "thorough"
    chk.assumptions += [
        "statement alphabet: Group(prefix in {/a, b, /c/}, 0-1 middleware) / return / Use(1-2) / GET(path in {/x, y/, ''}, 0-1 "
        "middleware) / Route.Use; Group realised as Group and as Controller; clean non-root prefixes",
        "handlers identified by <<statement, index>>; one request per route, log of enters and leaves compared",
    ]
    regpaths(chk)
    if thorough:
        explore(chk, 5, 3, 3)
    else:
        explore(chk, 4, 2, 2)
    chk.exhaustive = True
    recorded(chk, 80 if thorough else 10)
    if thorough:
        from . import rux
        rux.simulate(chk, 40, only={"chain", "registration-panic", "panic"})
    negs(chk, ["D_GroupAliasesCallerList", "D_NoRestoreMw", "D_UseLeaksToParent", "D_RouteMwBeforeGroup"] if thorough else ["D_GroupAliasesCallerList", "D_NoRestoreMw"])


def replay(doc):
    print("replay:", doc.get("desc", {}).get("what", "")[:2000])
    p = os.path.join(core.scratch(), "case.ndjson")
    core.write_ndjson(p, [doc["replay"]["case"]])
    s = core.run_harness(["reg", "replay", p])
    print(json.dumps(s["mismatches"], indent=1)[:3000])
    return 1 if s["mismatch_count"] else 0
