"""C11 - registration and lookup normalise paths identically; normalisation is total."""
import os
from .. import core


def mc(chk, mode, maxlen, maxpre, maxurl, alphabet, emit=True, dev=False, note=""):
    c = core.cfg(constants=dict(Alphabet=set(alphabet), MaxLen=maxlen, MaxPre=maxpre,
                                UrlAlphabet={"/", "a", "e2F", "e20", "e61"}, MaxUrl=maxurl, Mode=mode,
                                D_EmptyCheckBeforeTrim=dev),
                 invariants=["LawsHold", "ReachRefines"] + (["Emit"] if emit else []))
    return core.run_tlc("MC_Path", cfg_text=c, timeout=1200)


def run(chk):
    thorough = chk.tier == "thorough"
    chk.assumptions += [
        "white space = the tokens SP, TAB (strings.TrimSpace); alphabet '/', SP, TAB(thorough), '.', 'a', escapes %2F %20 %61",
        "Norm is trim-then-strip in one pass, exactly as both registration and lookup apply it (it is not idempotent on "
        "strings like '/ /' whose white space is exposed by stripping the slashes; C11 only requires both sides to agree)",
    ]
    # (the reach relation is judged for every PAIR of texts: thorough = six tokens up to length 4, and length 5 over
    # four tokens (with TAB); every text also carries its registered path under all prefix lists <=2, which is what fills the memory)
    alpha = ["/", "SP", "a", ".", "NBSP", "VT"] if thorough else ["/", "SP", "a", ".", "NBSP"]
    r1 = mc(chk, "text", 4, 2, 1, alpha)
    chk.expect_holds(r1, "laws of RuxPath, FormatPath = Norm")
    chk.add_tlc(r1, "all token strings <=4 over %s, prefixes <=2" % alpha)
    if thorough:
        r1b = mc(chk, "text", 5, 2, 1, ["/", "TAB", "a", "."])
        chk.expect_holds(r1b, "laws of RuxPath, FormatPath = Norm (longer texts)")
        chk.add_tlc(r1b, "all token strings <=5 over [/, TAB, a, .], prefixes <=2")
        r1.lines = r1.lines + r1b.lines
    r2 = mc(chk, "url", 1, 1, 5 if thorough else 4, alpha)
    chk.expect_holds(r2, "url instance")
    chk.add_tlc(r2, "all raw URL token strings <=%d over {/, a, %%2F, %%20, %%61}" % (5 if thorough else 4))
    cases = os.path.join(core.scratch(), "path-cases.ndjson")
    core.write_ndjson(cases, r1.lines + r2.lines)
    chk.absorb(core.run_harness(["path", "replay", cases], timeout=3000), "path")
    chk.exhaustive = True
    # non-vacuity: the partial formatPath (F12) must violate totality
    rn = mc(chk, "text", 2, 1, 1, ["/", "SP", "a"], emit=False, dev=True)
    chk.expect_fails(rn, "MC_Path[D_EmptyCheckBeforeTrim]", None)


def replay(doc):
    print("replay:", doc.get("desc", {}).get("what"))
    return 2
