"""REPO: the repository's own test suite as a trace source (DESIGN 5.2). `go test -tags verif` with VERIF_TRACE records
every registration and every dispatch of every router the tests build; TLC validates them against RuxResolve
(spec/trace/TraceRepo.tla). Not a property of its own: `./check REPO`, and part of the thorough tiers of C01 / C06."""
import json
import os
import subprocess
from .. import core, patterns as P, ruxparse

DEV = dict(D_IrregularOverwrite=False, D_QuotedStart=False, D_VarlessOptionalIrregular=False, D_EmptyCheckBeforeTrim=False,
           D_InterceptRaw=False, D_FallbackBeforeHead=False, D_AllowProbeHeadFallback=False)
WS = {" ": "SP", "\t": "TAB"}
OKCHARS = set("abcdefghijklmnopqrstuvwxyzABCDEFGHIJKLMNOPQRSTUVWXYZ0123456789_-./*~@!,;=+ \t")


def toks(s):
    return [WS.get(c, c) for c in s]


def norm(strict, s):
    t = s.strip(" \t\n\r\v\f")
    if not strict:
        t = t.rstrip("/")
    return "/" + t.lstrip("/")


def record(pkgs=(".", "./pkg/handlers")):
    """one test process per package, one raw file per process (router ids are per process), merged with a package prefix"""
    raw = os.path.join(core.scratch(), "repo-events.ndjson")
    with open(raw, "w") as fo:
        for i, pkg in enumerate(pkgs):
            part = os.path.join(core.scratch(), "repo-events-%d.ndjson" % i)
            open(part, "w").close()
            env = core.go_env()
            env["VERIF_TRACE"] = part
            p = subprocess.run(["go", "test", "-tags", "verif", "-vet=off", "-count=1", pkg], cwd=core.REPO, env=env,
                               stdout=subprocess.PIPE, stderr=subprocess.STDOUT, text=True, timeout=1200)
            if p.returncode != 0:
                raise core.Inconclusive("the repository's tests fail with -tags verif:\n" + p.stdout[-2000:])
            for ln in open(part):
                try:
                    e = json.loads(ln)
                except ValueError:
                    continue
                e["router"] = "%d:%s" % (i, e["router"])
                if "rid" in e and e["rid"]:
                    e["rid"] = "%d:%s" % (i, e["rid"])
                fo.write(json.dumps(e) + "\n")
            os.remove(part)
    return raw


def convert(raw, out):
    """group the raw events per router, translate, write the TLC trace; returns stats"""
    routers = {}
    order = []
    for ln in open(raw):
        try:
            e = json.loads(ln)
        except ValueError:
            continue
        rid = e["router"]
        if rid not in routers:
            routers[rid] = []
            order.append(rid)
        routers[rid].append(e)
    pool, paths, lines = [], set(), []
    stats = dict(routers=len(order), routers_validated=0, routers_skipped=0, skipped_why={}, registrations=0, dispatches=0)

    def skip(why):
        stats["routers_skipped"] += 1
        stats["skipped_why"][why] = stats["skipped_why"].get(why, 0) + 1

    for rid in order:
        evs = routers[rid]
        if not any(e["op"] == "req" for e in evs):
            skip("no request dispatched")
            continue
        first = evs[0]
        o = first["opts"]
        if o["encoded"]:
            skip("UseEncodedPath (escaped paths are not tokenised)")
            continue
        if not all(c in OKCHARS for c in o["icpt"]):
            skip("intercept path outside the alphabet")
            continue
        rl, bad, static = [], None, set()
        idmap = {}
        for e in evs:
            if e["op"] == "reg":
                c = ruxparse.to_compact(e["path"])
                if c is None:
                    bad = "route path outside the modelled grammar: %s" % e["path"]
                    break
                if "{" not in c and "[" not in c:
                    for m in e["methods"]:
                        if (m, c) in static:
                            bad = "two static routes with the same method and path (outside C01's quantifier)"
                        static.add((m, c))
                    if bad:
                        break
                pool.append(c)
                idmap[e["rid"]] = len(idmap) + 1
                rl.append(dict(op="reg", p=len(pool), ms=e["methods"], text=e["path"]))
                stats["registrations"] += 1
            elif e["op"] == "req":
                if not all(ch in OKCHARS for ch in e["path"]) or e["method"] == "":
                    bad = "request path or method outside the alphabet: %r" % e["path"]
                    break
                if e["rid"] and e["rid"] not in idmap:
                    bad = "dispatch to a route registered on another router"
                    break
                paths.add(norm(o["strict"], e["path"]))
                rl.append(dict(op="req", m=e["method"], path=toks(e["path"]), got=idmap.get(e["rid"], 0), allow=sorted(e["allowed"] or []),
                               raw=e["path"]))
                stats["dispatches"] += 1
        if bad:
            skip(bad.split(":")[0])
            pool = pool[:len(pool) - sum(1 for x in rl if x["op"] == "reg")]
            stats["registrations"] -= sum(1 for x in rl if x["op"] == "reg")
            stats["dispatches"] -= sum(1 for x in rl if x["op"] == "req")
            continue
        if o["icpt"]:
            paths.add(norm(False, o["icpt"]))
        lines.append(dict(op="reset", strict=o["strict"], hmna=o["hmna"], hfb=o["hfb"], icpt=toks(o["icpt"])))
        lines += rl
        stats["routers_validated"] += 1
    with open(out, "w") as f:
        f.write(json.dumps(dict(op="hdr")) + "\n")
        for l in lines:
            f.write(json.dumps(l) + "\n")
    return pool, sorted(paths), stats, lines


def validate(chk, only=None):
    raw = record()
    tr = os.path.join(core.scratch(), "repo-trace.ndjson")
    pool, paths, stats, lines = convert(raw, tr)
    chk.extra["repo_tests"] = stats
    if stats["routers_validated"] == 0:
        raise core.Inconclusive("no router of the repository's tests could be translated: %s" % stats)
    os.makedirs(os.path.join(core.scratch(), "repopool"), exist_ok=True)
    pd = os.path.join(core.scratch(), "repopool", "PoolDef.tla")
    open(pd, "w").write(P.pooldef(pool, chars=("/",), extra_paths=[tuple(toks(p)) for p in paths]))
    const = dict(DEV, MaxLen=1, MaxTable=1, MethodSets=core.SetOfSets([["GET"]]), ReqMethods={"GET"})
    c = core.cfg(init="TraceInit", next="TraceNext", constants=const, postcondition="Post")
    res = core.run_tlc("TraceRepo", cfg_text=c, workers=1, timeout=1800, env={"TRACE": tr}, extra_files=[pd], expect_fail=True)
    verdict = [o for o in res.lines if isinstance(o, dict) and "verdict" in o]
    if not verdict or res.violated is not None:
        raise core.Inconclusive("TraceRepo did not finish: %s\n%s" % (res.error_text, res.raw_tail[-1500:]))
    v = verdict[-1]
    if v.get("specbad"):
        raise core.Inconclusive("spec-defect: QuickMatch and Resolve disagree on recorded line %d: %s" % (v["specbad"], core.trace_line(tr, v["specbad"])))
    chk.add_tlc(res, "repository test suite as a trace: %d routers, %d registrations, %d dispatches validated (%d routers skipped)" % (
        stats["routers_validated"], stats["registrations"], stats["dispatches"], stats["routers_skipped"]))
    chk.traces += stats["routers_validated"]
    chk.sample(dict(repo_test_event=core.trace_line(tr, 4)))
    if v["verdict"] != "ACCEPT":
        bad = v.get("line") or v.get("diameter")
        ev = core.trace_line(tr, bad)
        table = []
        for l in lines[:bad - 1]:
            if l["op"] == "reset":
                table = [dict(strict=l["strict"], hmna=l["hmna"], hfb=l["hfb"], intercept="".join(l["icpt"]))]
            elif l["op"] == "reg":
                table.append(",".join(l["ms"]) + " " + l["text"])
        chk.violation(dict(kind="repo-trace", aspect="trace", line=bad, table=table, event=ev,
                           what="a dispatch recorded from the repository's own tests is not what C06/C01 resolve: %s %s on %s -> route #%s allowed %s" % (
                               ev.get("m"), ev.get("raw"), table, ev.get("got"), ev.get("allow"))),
                      dict(family="repo", line=bad))
    return stats


def run(chk):
    validate(chk)


def replay(doc):
    print("replay:", doc.get("desc", {}).get("what", "")[:3000])
    return 2
