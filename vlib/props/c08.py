"""C08 - exactly one header commit per request, with the status set before the body."""
import json
import os
from .. import core
from . import c04

WR = {"writer", "log", "crash", "enter", "probe"}


def wcfg(maxops, alphabet, emit=True, **dev):
    c = dict(c04.DEV)
    c.update(dev)
    c.update(MaxInt=127, AbortIdx=63, MaxOps=maxops, Alphabet=set(alphabet))
    return core.cfg(constants=c, invariants=["WriterOK"] + (["Emit"] if emit else []))


def instance(chk, name, maxops, alphabet):
    out = os.path.join(core.scratch(), "writer-%s.ndjson" % name)
    with open(out, "w") as fo:
        def cb(o):
            fo.write(json.dumps(o, separators=(",", ":")))
            fo.write("\n")
        res = core.run_tlc("MC_Writer", cfg_text=wcfg(maxops, alphabet), timeout=1800, keep_lines=False, line_cb=cb)
    chk.expect_holds(res, "OneCommit for all op sequences (%s)" % name)
    chk.add_tlc(res, "%s: all sequences <=%d over %s, distributed over 1-2 handlers" % (name, maxops, sorted(alphabet)))
    s = core.run_harness(["chain", "replay", out], env={"VERIF_SEED": chk.seed}, timeout=3000)
    chk.absorb(s, "chain", only=WR)
    os.remove(out)


def redispatch(chk, only):
    """HandleContext from the main handler of a route: same context, same writer, one commit for the whole request"""
    c = dict(c04.DEV)
    c.update(MaxInt=127, AbortIdx=63, MaxG=1 if chk.tier != "thorough" else 2, MaxInner=2 if chk.tier != "thorough" else 3,
             Scripts={"R", "N", "A", "AS", "W", "P"})
    res = core.run_tlc("MC_Redispatch", cfg_text=core.cfg(constants=c, invariants=["RedispatchOK", "Emit"]), timeout=900)
    chk.expect_holds(res, "OneCommit over a request that re-dispatches")
    chk.add_tlc(res, "re-dispatch cases: global scripts x writer ops before HandleContext x inner chains")
    out = os.path.join(core.scratch(), "redispatch.ndjson")
    core.write_ndjson(out, res.lines)
    chk.absorb(core.run_harness(["chain", "replay", out], env={"VERIF_SEED": chk.seed}), "chain", only=only)


def subrouter(chk, only):
    """a router mounted inside a handler of another router: two contexts, two lazy writers, one commit on the wire"""
    c = dict(c04.DEV)
    c.update(MaxInt=127, AbortIdx=63, MaxG=1, MaxInner=2 if chk.tier != "thorough" else 3, Scripts={"R", "N", "A", "AS", "S", "W"})
    res = core.run_tlc("MC_Subrouter", cfg_text=core.cfg(constants=c, invariants=["SubrouterOK", "Emit"]), timeout=900)
    chk.expect_holds(res, "OneCommit over a request served by a mounted router")
    chk.add_tlc(res, "mounted-router cases: global scripts x writer ops before the mount x inner chains")
    out = os.path.join(core.scratch(), "subrouter.ndjson")
    core.write_ndjson(out, res.lines)
    chk.absorb(core.run_harness(["chain", "replay", out], env={"VERIF_SEED": chk.seed}), "chain", only=only)


def run(chk):
    thorough = chk.tier == "thorough"
    chk.assumptions += [
        "underlying writer = recording http.ResponseWriter+Flusher that can accept fewer bytes than offered or fail",
        "ops: SetStatus(<=0, 100, 201, 299, 404, 500, 520), Write(0/1/3 bytes; full, short, error), Flush, http.Error, Text/HTML/JSON/JSONBytes/NoContent",
    ]
    full = ["S0", "Sneg", "S100", "S200", "S201", "S299", "S404", "W0", "W1", "W3", "Wshort", "Werr", "F", "E404"]
    instance(chk, "wide", 3, full)
    instance(chk, "deep", 5 if thorough else 4, ["Sneg", "S201", "S404", "W0", "W1", "Wshort", "F", "E404"] if thorough
             else ["S0", "S201", "S404", "W1", "Werr", "F", "E404"])
    # the response helpers of Context (Text, HTML, JSON, JSONBytes, NoContent) between explicit status choices and writes
    instance(chk, "helpers", 3, ["S404", "S520", "T200", "H200e", "J201", "JB200", "NC", "W1", "F"])
    redispatch(chk, WR)
    subrouter(chk, WR)
    # the built-in 404 / 405 / OPTIONS answers on a router without any middleware: one commit, with the right status
    c04.instance(chk, "builtin", "uniform", 1, 1, ["D404", "D405", "DOPT"], kinds=("default",), only=WR, extra_invs=("DispatchOK",))
    c04.library(chk, WR, maxn=3 if thorough else 2, extra=("N", "W"))
    chk.exhaustive = True
    c04.recorded(chk, 2000 if thorough else 300, WR)
    r = core.run_tlc("MC_Writer", cfg_text=wcfg(3, ["S201", "W1", "F"], emit=False, D_FlushNoCommit=True), timeout=300)
    chk.expect_fails(r, "MC_Writer[D_FlushNoCommit]", "WriterOK")


def replay(doc):
    return c04.replay(doc)
