"""C19 - response helpers emit the given status, content type and a decodable body."""
import json
import os
from .. import core


def run(chk):
    chk.assumptions += [
        "status / Content-Type / body-shape tables and content negotiation are model-checked; decoding the body back is done in Go "
        "with the standard decoders (exploration strength for that sub-claim)",
        "Accept entries: json, application/xml, text/xml, plain, png, json;q=0.9, */* (text/html is not probed: render.Auto "
        "accepts it but writes nothing, the statement does not say whether it counts as supported)",
        "XML cannot represent some control characters: for such strings only well-formedness is required",
    ]
    res = core.run_tlc("MC_Render", cfg_text=core.cfg(constants=dict(D_XmlCaseEmpty=False), invariants=["RenderOK", "Emit"]), timeout=600)
    chk.expect_holds(res, "helper tables / negotiation: code order = first supported")
    chk.add_tlc(res, "16 helpers x 7 statuses x preset x 8 value classes; all Accept lists <=3 over 7 entries")
    out = os.path.join(core.scratch(), "render.ndjson")
    core.write_ndjson(out, res.lines)
    chk.absorb(core.run_harness(["render", "replay", out], timeout=1800), "render")
    chk.exhaustive = True
    r = core.run_tlc("MC_Render", cfg_text=core.cfg(constants=dict(D_XmlCaseEmpty=True), invariants=["RenderOK"]), timeout=300)
    chk.expect_fails(r, "MC_Render[D_XmlCaseEmpty]", "RenderOK")


def replay(doc):
    print("replay:", doc.get("desc", {}).get("what", "")[:2000])
    p = os.path.join(core.scratch(), "case.ndjson")
    core.write_ndjson(p, [doc["replay"]["case"]])
    s = core.run_harness(["render", "replay", p])
    print(json.dumps(s["mismatches"], indent=1)[:3000])
    return 1 if s["mismatch_count"] else 0
