"""C03 - concurrent requests are independent of each other and race-free."""
import json
import os
import re
from .. import core

DEV = dict(D_InPlaceAppend=False, D_LazyFallbackInit=False, D_EarlyPut=False, D_PutBeforeHook=False, D_HookPathPuts=False, D_RedispatchPuts=False)


def scfg(reqs, kinds, shape, emit=True, invs=("NoInterference", "NoSharedCtx", "NoModelRace"), **dev):
    c = dict(DEV)
    c.update(dev)
    k = list(kinds) + ["a", "a", "a"]
    c.update(Reqs=set(reqs), KindOf=core.Sub("MCKindOf"), K1=k[0], K2=k[1], K3=k[2], GLen=shape[0], GCap=shape[1],
             MwLen=shape[2], MwCap=shape[3])
    return core.cfg(init="MCInit", next="MCNext", constants=c, invariants=list(invs), view="View",
                    action_constraints=["Emit"] if emit else [])


def schedules(chk, reqs, kinds, shape, fo, sample_every=1):
    n = [0]

    def cb(o):
        n[0] += 1
        if n[0] % sample_every == 0:
            fo.write(json.dumps(o, separators=(",", ":")))
            fo.write("\n")
    res = core.run_tlc("MC_Serve", cfg_text=scfg(reqs, kinds, shape), timeout=1200, keep_lines=False, line_cb=cb)
    chk.expect_holds(res, "NoInterference/NoSharedCtx/NoModelRace %s %s" % (kinds, shape))
    chk.add_tlc(res, "requests %s -> %s, global len/cap %d/%d, route mw len/cap %d/%d" % (reqs, kinds, *shape))


def stress(chk, n):
    """real goroutines under the race detector; traces validated per request by TLC; race reports with a rux frame = violation"""
    tr = os.path.join(core.scratch(), "serve-trace.ndjson")
    rlog = os.path.join(core.scratch(), "race")
    s = core.run_harness(["servestress", "record", tr, n], race=True, timeout=1800,
                         env={"VERIF_SEED": chk.seed, "GORACE": "log_path=%s exitcode=0 halt_on_error=0" % rlog}, ok_codes=(0,), crash_ok=True)
    if s.get("_crashed"):
        # a fatal runtime error while serving (cannot be recovered by the harness): judged by where it happened
        err = s["_stderr"]
        first = err[err.find("fatal error:"):][:200].splitlines()[0]
        frames = re.findall(r"^(github\.com/gookit/rux(?:/pkg/\w+)?\.\S+)\(", err, re.M)
        if frames:
            chk.violation(dict(kind="race", aspect="race", frames=frames[:4], what="the Go runtime aborted the stress run: %s in %s" % (first, ", ".join(frames[:3]))),
                          dict(family="servestress", seed=chk.seed, fatal=first))
            return
        raise core.Inconclusive("stress harness crashed outside rux: %s" % first)
    chk.absorb(s, "servestress")
    const = dict(DEV, Reqs={"r1"}, KindOf=core.Sub("TKind"), GLen=0, GCap=0, MwLen=0, MwCap=0)
    cfgtxt = core.cfg(init="TraceInit", next="TraceNext", constants=const, postcondition="Post")
    res = core.run_tlc("TraceServe", cfg_text=cfgtxt, workers=1, timeout=900, env={"TRACE": tr}, expect_fail=True)
    verdict = [o for o in res.lines if isinstance(o, dict) and "verdict" in o]
    if not verdict or res.violated is not None:
        raise core.Inconclusive("TraceServe did not finish: %s\n%s" % (res.error_text, res.raw_tail[-1500:]))
    chk.add_tlc(res, "per-request trace validation of %d recorded requests" % s["info"]["events"])
    if verdict[-1]["verdict"] != "ACCEPT":
        bad = verdict[-1].get("line") or verdict[-1].get("diameter")
        ev = core.trace_line(tr, bad)
        chk.violation(dict(kind="serve-trace", aspect="interference", line=bad, event=ev,
                           what="under concurrency a request ran %s (route %s, %d global / %d route middleware)" % (
                               ev.get("log"), ev.get("kind"), ev.get("glen"), ev.get("mwlen"))),
                      dict(family="servestress", seed=chk.seed, line=bad))
    # race detector reports
    races = []
    d = os.path.dirname(rlog)
    for f in os.listdir(d):
        if f.startswith("race."):
            txt = open(os.path.join(d, f), errors="replace").read()
            for block in txt.split("WARNING: DATA RACE")[1:]:
                frames = re.findall(r"^\s+(github\.com/gookit/rux(?:/pkg/\w+)?\.\S+)\(\)", block, re.M)
                if frames:
                    races.append(frames[:4])
    chk.extra["race_reports"] = len(races)
    chk.extra["stress"] = dict(shapes=s["cases"], requests=s["compared"])
    seen = set()
    for fr in races:
        key = tuple(fr[:2])
        if key in seen:
            continue
        seen.add(key)
        chk.violation(dict(kind="race", aspect="race", frames=fr, what="data race reported by the race detector in " + ", ".join(fr[:3])),
                      dict(family="servestress", seed=chk.seed, frames=fr))


def run(chk):
    thorough = chk.tier == "thorough"
    chk.assumptions += [
        "interleavings at handler-boundary granularity (the granularity the parking scheduler can reproduce); finer ones are "
        "covered by the model's per-cell read/write sets (NoModelRace) and observed by the race detector",
        "registration is finished before the first request; handlers treat Params as read-only",
    ]
    out = os.path.join(core.scratch(), "serve.ndjson")
    shapes = [(3, 4, 0, 0), (3, 3, 1, 1), (0, 0, 1, 2), (2, 2, 0, 0)] + ([(3, 4, 3, 4), (1, 1, 1, 1), (0, 0, 0, 0), (5, 8, 2, 2)] if thorough else [])
    pairs = [("a", "b"), ("a", "a"), ("b", "b"), ("a", "nf")] + ([("nf", "nf"), ("b", "nf")] if thorough else [])
    panics = [("p", "a"), ("p", "p")] if thorough else [("p", "a")]
    with open(out, "w") as fo:
        for sh in shapes:
            for kinds in (pairs if thorough else pairs[:2] + pairs[3:]):
                schedules(chk, ["r1", "r2"], kinds, sh, fo)
        for kinds in panics:      # a panicking request with an OnPanic hook next to another request
            schedules(chk, ["r1", "r2"], kinds, (1, 1, 0, 0), fo)
        # a handler that re-dispatches its request with Router.HandleContext and goes on using its context (F23)
        for kinds, sh in [(("rd", "a"), (1, 1, 1, 1)), (("rd", "b"), (3, 4, 0, 0))] + ([(("rd", "rd"), (1, 1, 0, 0)), (("rd", "nf"), (2, 2, 1, 2))] if thorough else []):
            schedules(chk, ["r1", "r2"], kinds, sh, fo)
        triples = [("a", "b", "a"), ("a", "b", "nf")] if thorough else [("a", "b", "a")]
        for kinds in triples:
            schedules(chk, ["r1", "r2", "r3"], kinds, (3, 4, 0, 0), fo, sample_every=1 if thorough else 4)
        # a recovered panic FIRST, then two requests in flight together: the context of the panicked request is in the pool once
        schedules(chk, ["r1", "r2", "r3"], ("p", "a", "b"), (1, 1, 0, 0), fo, sample_every=1 if thorough else 3)
    s = core.run_harness(["serve", "replay", out], timeout=3000, env={"VERIF_SEED": chk.seed})
    chk.absorb(s, "serve")
    os.remove(out)
    chk.exhaustive = True
    for sw, shape, kinds, inv in [("D_InPlaceAppend", (3, 4, 0, 0), ("a", "b"), "NoInterference"),
                                  ("D_InPlaceAppend", (0, 0, 1, 2), ("a", "a"), "NoModelRace"),
                                  ("D_LazyFallbackInit", (0, 0, 0, 0), ("nf", "nf"), "NoModelRace"),
                                  ("D_RedispatchPuts", (1, 1, 0, 0), ("rd", "a"), "NoSharedCtx"),
                                  ("D_EarlyPut", (1, 1, 0, 0), ("a", "b"), "NoSharedCtx"),
                                  ("D_PutBeforeHook", (1, 1, 0, 0), ("p", "a"), "NoSharedCtx"),
                                  ("D_HookPathPuts", (1, 1, 0, 0), ("p", "a"), "NoSharedCtx")][: 7 if thorough else 3]:
        r = core.run_tlc("MC_Serve", cfg_text=scfg(["r1", "r2"], kinds, shape, emit=False, invs=(inv,), **{sw: True}), timeout=300)
        chk.expect_fails(r, "MC_Serve[%s %s]" % (sw, shape), inv)
    stress(chk, 40 if thorough else 8)


def replay(doc):
    print("replay:", doc.get("desc", {}).get("what", "")[:2000])
    r = doc["replay"]
    if r.get("family") == "serve":
        p = os.path.join(core.scratch(), "case.ndjson")
        core.write_ndjson(p, [r["case"]])
        s = core.run_harness(["serve", "replay", p])
        print(json.dumps(s["mismatches"], indent=1)[:3000])
        return 1 if s["mismatch_count"] else 0
    return 2
