"""C17 - static file handlers never serve anything outside their root."""
import json
import os
from .. import core

SEGS = {"a.txt", "a.css", "sub", "b.js", "..", ".", "", "secret.txt", "secret.css", "%2e%2e", "sub%2f..", "..%2fsecret.txt",
        "..%2f..%2fsecret.css", "a.txt.", "index.html", "root-internal", "key.css", "c.mjs", "%252e%252e", "%252e%252e%252fsecret.txt", "lib.js"}


def scfg(maxsegs, emit=True, **dev):
    c = dict(D_NoClean=False, D_ExtOnRawTail=False, MaxSegs=maxsegs, SegAlphabet=SEGS)
    c.update(dev)
    return core.cfg(constants=c, invariants=["StaticOK"] + (["Emit"] if emit else []))


def run(chk):
    thorough = chk.tier == "thorough"
    chk.assumptions += [
        "confinement is mostly net/http's (http.Dir, FileServer); the model contributes the adversarial path space and the rux-side "
        "steps (route regex on the decoded path, StripPrefix, URL.Path = Param(file), extension regex)",
        "real temporary tree without symlinks (http.Dir follows them by design); every file carries a unique marker",
    ]
    out = os.path.join(core.scratch(), "static.ndjson")
    with open(out, "w") as fo:
        def cb(o):
            fo.write(json.dumps(o, separators=(",", ":")))
            fo.write("\n")
        res = core.run_tlc("MC_Static", cfg_text=scfg(4 if thorough else 3), timeout=1800, keep_lines=False, line_cb=cb)
    chk.expect_holds(res, "Clean never leaves the root; extension rule")
    chk.add_tlc(res, "all raw paths of <=%d segments over %d segment tokens" % (4 if thorough else 3, len(SEGS)))
    chk.absorb(core.run_harness(["static", "replay", out], timeout=3000), "static")
    os.remove(out)
    chk.exhaustive = True
    r = core.run_tlc("MC_Static", cfg_text=scfg(3, emit=False, D_NoClean=True), timeout=300)
    chk.expect_fails(r, "MC_Static[D_NoClean]", "StaticOK")


def replay(doc):
    print("replay:", doc.get("desc", {}).get("what", "")[:2000])
    p = os.path.join(core.scratch(), "case.ndjson")
    core.write_ndjson(p, [doc["replay"]["case"]])
    s = core.run_harness(["static", "replay", p])
    print(json.dumps(s["mismatches"], indent=1)[:3000])
    return 1 if s["mismatch_count"] else 0
