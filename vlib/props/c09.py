"""C09 - a panicking handler is contained and leaves the router healthy."""
from .. import core
from . import c04

PAN = {"log", "enter", "panic-escape", "writer", "unhealthy", "crash", "probe"}
HOOKS = ("none", "nothing", "status", "statusbody", "ok200")


def run(chk):
    thorough = chk.tier == "thorough"
    chk.assumptions += [
        "panic positions: before Next (P), after Next (NP), after bytes were written (WP), in route / NotFound / NotAllowed chains, "
        "and inside the OnError handler's trigger path (E records an error so OnError runs)",
        "hooks: absent, does nothing, sets status, sets status and writes a body; every request is repeated once on the same router",
    ]
    sc = ["N", "R", "P", "NP", "WP", "W", "PH", "PA", "EP", "SP"] + (["E", "NN"] if thorough else ["E"])
    c04.instance(chk, "panic", "all", 1, 4 if thorough else 3, sc, kinds=("route", "notfound", "notallowed"), only=PAN, hooks=HOOKS,
                 extra_invs=("DispatchOK",))
    c04.instance(chk, "panic-long", "odd", 20, 22 if not thorough else 40, ["P", "NP", "WP"], base="N", only=PAN, hooks=("none", "statusbody"),
                 extra_invs=("DispatchOK",))
    # a panic below handlers.Timeout: its deferred WriteHeader(504) runs while the panic unwinds, then the hook
    c04.library(chk, PAN, maxn=3 if thorough else 2, extra=("N", "P", "WP", "PH"), hooks=HOOKS)
    # a panic inside a nested dispatch (HandleContext, also on another router): handled there, by THAT router's hook
    from . import c08
    c08.redispatch(chk, PAN)
    chk.exhaustive = True
    c04.recorded(chk, 2000 if thorough else 300, PAN)
    r = core.run_tlc("MC_Chain", cfg_text=c04.ccfg("all", 1, 2, ["N", "P"], emit=False, invs=("DispatchOK",), hooks=("status",),
                                                  D_PanicNoCommit=True), timeout=300)
    chk.expect_fails(r, "MC_Chain[D_PanicNoCommit]", "DispatchOK")


def replay(doc):
    return c04.replay(doc)
