"""C13 - bad route definitions fail at registration; accepted ones never panic at lookup."""
import json
import os
from .. import core

ALPHA = {"/", "a", "x", ".", "{", "}", "[", "]", "(", "(?:", ")", ":", "\\\\d+", "*", "?"}


def dcfg(maxlen, alphabet=ALPHA, emit=True):
    return core.cfg(constants=dict(Alphabet=set(alphabet), MaxLen=maxlen, D_EmptyCheckBeforeTrim=False), invariants=["ConsistentInv", "TotalInv"] + (["Emit"] if emit else []))


def run(chk):
    thorough = chk.tier == "thorough"
    chk.assumptions += [
        "three-valued verdict: reject (listed as invalid) / accept (documented grammar) / unspecified (statement silent: only "
        "totality is checked)",
        "token strings over {/ a x . { } [ ] ( (?: ) : \\d+ * ?}; lookups probed with 7 method strings x 29 paths (empty, blank, "
        "non-UTF-8, very long, metacharacters) x 4 option sets incl. caching",
    ]
    out = os.path.join(core.scratch(), "defs.ndjson")
    with open(out, "w") as fo:
        def cb(o):
            fo.write(json.dumps(o, separators=(",", ":")))
            fo.write("\n")
        res = core.run_tlc("MC_Defs", cfg_text=dcfg(4 if thorough else 3), timeout=1800, keep_lines=False, line_cb=cb)
        chk.expect_holds(res, "verdict function total and consistent")
        chk.add_tlc(res, "all token strings <=%d over 15 tokens + method/handler/count block" % (4 if thorough else 3))
        # longer definitions over a reduced alphabet (variables with regexes, nested optional parts)
        res2 = core.run_tlc("MC_Defs", cfg_text=dcfg(5, {"/", "a", "{", "}", ":", "(", "(?:", "(?P<n>", ")", "\\\\d+"} if thorough
                                                   else {"/", "{", "}", "x", ":", "(", "(?P<n>", ")"}), timeout=1800, keep_lines=False, line_cb=cb)
        chk.expect_holds(res2, "verdict function (long definitions)")
        chk.add_tlc(res2, "all token strings <=5 over a reduced alphabet (variable regexes with groups, named groups)")
        # optional parts: every bracket structure of up to 7 tokens (middle optionals, several groups, empty groups)
        res3 = core.run_tlc("MC_Defs", cfg_text=dcfg(7, {"a", "[", "]"}), timeout=1800, keep_lines=False, line_cb=cb)
        chk.expect_holds(res3, "verdict function (bracket structures)")
        chk.add_tlc(res3, "all token strings <=7 over {a [ ]}")
    s = core.run_harness(["defs", "replay", out], timeout=3000)
    chk.absorb(s, "defs")
    # accepted definitions of the documented grammar (the pattern pool of C01): no lookup panics, whatever the method string
    from . import c01
    from .. import patterns as P
    pool = P.read_pool(os.path.join(core.SPEC, "pools", "pool49.txt"))
    c01.run_instance(chk, "pool-totality", pool, 4, 1, only={"lookup-panic", "registration-panic"})
    chk.extra["accepted_by_verdict"] = {k: v for k, v in s.get("info", {}).items()}
    os.remove(out)
    chk.exhaustive = True


def replay(doc):
    print("replay:", doc.get("desc", {}).get("what", "")[:2000])
    p = os.path.join(core.scratch(), "case.ndjson")
    core.write_ndjson(p, [doc["replay"]["case"]])
    s = core.run_harness(["defs", "replay", p])
    print(json.dumps(s["mismatches"], indent=1)[:3000])
    return 1 if s["mismatch_count"] else 0
