"""Composition Rux.tla: simulated behaviours (registration program + request history) replayed on the real router.
Not a property of its own: used by C04/C07/C12 thorough tiers and by `./check RUX` as a growth deliverable."""
import json
import os
from .. import core, patterns as P

PREFIXES = ["", "/g", "/h", "/g/g", "/g/h", "/h/g", "/h/h"]
BASES = ["/s", "/d/{id}", "/o[/{x}]", "/regres"]     # "/regres": the index route of Resource(base, &Regres{})
REQ_PATHS = ["/s", "/g/s", "/g/h/s", "/h/s", "/d/7", "/g/d/7", "/h/d/x", "/o", "/o/1", "/g/o", "/g/o/1", "/h/h/o/z", "/nope", "/g/nope", "/g/h/d/9", "/regres", "/g/regres", "/h/g/regres"]
DEV = dict(D_IrregularOverwrite=False, D_QuotedStart=False, D_VarlessOptionalIrregular=False, D_EmptyCheckBeforeTrim=False,
           D_InterceptRaw=False, D_FallbackBeforeHead=False, D_AllowProbeHeadFallback=False,
           D_CacheKeyFirstSegment=False, D_CacheKeyNoMethod=False, D_CacheSkipsStable=False,
           D_GroupAliasesCallerList=False, D_NoRestoreMw=False, D_UseLeaksToParent=False, D_RouteMwBeforeGroup=False,
           D_NextCreeps=False, D_FlushNoCommit=False, D_PanicNoCommit=False)


def pooldef():
    pool = [pre + b for pre in PREFIXES for b in BASES]
    pd = os.path.join(core.scratch(), "PoolDef.tla")
    open(pd, "w").write(P.pooldef(pool, chars=("/",), extra_paths=[tuple(p) for p in REQ_PATHS], toks=True))
    return pd


def rcfg(stmts=10, depth=2, routes=4, reqs=12, caps=(0, 1, 2, 3), minstmts=5):
    c = dict(DEV)
    c.update(MaxLen=1, MaxTable=9, MethodSets=core.SetOfSets([["GET"]]), ReqMethods={"GET"}, Caps=set(caps),
             MaxInt=127, AbortIdx=63, MinStmts=minstmts, MaxStmts=stmts, MaxDepth=depth, MaxRoutes=routes, MaxReqs=reqs)
    return core.cfg(constants=c, invariants=["Composite", "Emit"], properties=["TransparentP"])


def simulate(chk, num, depth=60, only=None, workers=8, **kw):
    """tlc -simulate on the composition; every complete behaviour is replayed on the real router"""
    pd = pooldef()
    out = os.path.join(core.scratch(), "rux.ndjson")
    n = [0]
    with open(out, "w") as fo:
        def cb(o):
            if isinstance(o, dict) and "h" in o:
                n[0] += 1
                fo.write(json.dumps(o, separators=(",", ":")))
                fo.write("\n")
        res = core.run_tlc("MC_Rux", cfg_text=rcfg(**kw), extra_files=[pd], timeout=1800, simulate="num=%d" % num, depth=depth,
                           seed=chk.seed, workers=workers, keep_lines=False, line_cb=cb)
    chk.expect_holds(res, "Composite / TransparentP on simulated behaviours")
    res.distinct = res.distinct or n[0]
    res.generated = res.generated or n[0] * depth
    chk.add_tlc(res, "simulation of the composition Rux: %d complete behaviours (program + %d requests each)" % (n[0], kw.get("reqs", 12)))
    if n[0] == 0:
        raise core.Inconclusive("simulation produced no complete behaviour")
    s = core.run_harness(["rux", "replay", out], timeout=1800)
    chk.absorb(s, "rux", only=only)
    os.remove(out)
    return n[0]


def run(chk):
    simulate(chk, 400 if chk.tier == "thorough" else 60)


def replay(doc):
    print("replay:", doc.get("desc", {}).get("what", "")[:3000])
    p = os.path.join(core.scratch(), "case.ndjson")
    core.write_ndjson(p, [doc["replay"]["case"]])
    s = core.run_harness(["rux", "replay", p])
    print(json.dumps(s["mismatches"], indent=1)[:3000])
    return 1 if s["mismatch_count"] else 0
