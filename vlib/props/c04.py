"""C04 - middleware runs in global -> group -> route -> handler onion order (C05 abort shares the machinery)."""
import json
import os
from .. import core

DEV = dict(D_NextCreeps=False, D_FlushNoCommit=False, D_PanicNoCommit=False)
ORDER = {"log", "enter", "probe", "crash", "registration-panic", "limit"}


def ccfg(mode, minn, maxn, scripts, base="N", emit=True, invs=("NoCrash", "LogPrefix", "LogComplete"), hooks=("none",), **dev):
    c = dict(DEV)
    c.update(dev)
    c.update(MaxInt=127, AbortIdx=63, Mode=mode, MinN=minn, MaxN=maxn, Scripts=set(scripts), Base=base, Hooks=set(hooks))
    return core.cfg(constants=c, invariants=list(invs) + (["Emit"] if emit else []))


def instance(chk, name, mode, minn, maxn, scripts, base="N", kinds=("route",), only=ORDER, expect_hold=True, timeout=1800,
             hooks=("none",), extra_invs=()):
    out = os.path.join(core.scratch(), "chain-%s.ndjson" % name)
    with open(out, "w") as fo:
        def cb(o):
            if "limit" in o:
                fo.write(json.dumps(o, separators=(",", ":")))
                fo.write("\n")
                return
            for k in kinds:
                o["kind"] = k
                fo.write(json.dumps(o, separators=(",", ":")))
                fo.write("\n")
        invs = (("NoCrash", "LogPrefix", "LogComplete") + tuple(extra_invs)) if expect_hold else ()
        res = core.run_tlc("MC_Chain", cfg_text=ccfg(mode, minn, maxn, scripts, base, invs=invs, hooks=hooks), timeout=timeout,
                           keep_lines=False, line_cb=cb)
    if expect_hold:
        chk.expect_holds(res, "cursor machine refines the ideal machine (%s)" % name)
    chk.add_tlc(res, "%s: mode=%s n=%d..%d scripts=%s" % (name, mode, minn, maxn, sorted(scripts)))
    s = core.run_harness(["chain", "replay", out], env={"VERIF_SEED": chk.seed}, timeout=3000)
    chk.absorb(s, "chain", only=only)
    os.remove(out)
    return res, s


def recorded(chk, n, only):
    """O3: random chains (<=63 handlers, arbitrary scripts, panics, hooks) recorded from the real router, validated by TLC"""
    tr = os.path.join(core.scratch(), "chain-trace.ndjson")
    s = core.run_harness(["chainrec", "record", tr, n], env={"VERIF_SEED": chk.seed})
    const = dict(DEV, MaxInt=127, AbortIdx=63)
    ok, bad, r = core.validate_trace("TraceChain", tr, constants=const, timeout=1800)
    chk.add_tlc(r, "trace validation: %d recorded requests over random chains" % s["cases"])
    chk.traces += s["cases"]
    chk.extra["recorded"] = dict(requests=s["cases"])
    chk.sample(dict(recorded_request=core.trace_line(tr, 1)))
    if not ok:
        ev = core.trace_line(tr, bad)
        chk.violation(dict(kind="chain-trace", aspect="log", chain_len=ev.get("n", 0), line=bad,
                           what="recorded request over a chain of %d handlers (%s) is not the ideal dispatch: log %s writer %s escaped=%s; chain %s" % (
                               ev.get("n", 0), ev.get("kind"), json.dumps(ev.get("log"))[:400], json.dumps(ev.get("under"))[:200],
                               ev.get("escaped"), json.dumps(ev.get("chain"))[:600])),
                      dict(family="chainrec", seed=chk.seed, n=n, line=bad))


LIBS = ["FH", "FM", "BN", "BB", "BO", "TF", "TI", "NC", "TX"]


def library(chk, only, maxn=3, extra=("N",), hooks=("none",), kinds=("route", "notfound")):
    """pkg/handlers middleware (IgnoreFavIcon, HTTPBasicAuth, Timeout) called inside handlers: the model expands them into
    primitive ops (RuxChainFn.LibOps), the harness calls the real functions"""
    instance(chk, "library", "all", 1, maxn, list(extra) + LIBS, kinds=kinds, only=only, hooks=hooks, extra_invs=("DispatchOK",))


def neg_creeps(chk):
    r = core.run_tlc("MC_Chain", cfg_text=ccfg("uniform", 40, 63, ["NN"], emit=False, D_NextCreeps=True), timeout=600)
    chk.expect_fails(r, "MC_Chain[D_NextCreeps] uniform NN n<=63 (int8 overflow)", None)


def beyond_limit_order(chk):
    """C04 beyond the sentinel (chains of 64..66 handlers that never abort): every handler still runs, once, in order"""
    out = os.path.join(core.scratch(), "chain-order.ndjson")
    with open(out, "w") as fo:
        def cb(o):
            fo.write(json.dumps(o, separators=(",", ":")))
            fo.write("\n")
        res = core.run_tlc("MC_Chain", cfg_text=ccfg("oddhead", 64, 66, ["R", "NN"], invs=()), timeout=600, keep_lines=False, line_cb=cb)
    chk.add_tlc(res, "beyond the sentinel: n=64..66, N everywhere except R / NN at positions 1..3; order of the handlers only")
    s = core.run_harness(["chain", "replay", out], env={"VERIF_SEED": chk.seed, "VERIF_CHAIN_ORDER_ONLY": "1"}, timeout=3000)
    chk.absorb(s, "chain", only={"log", "enter", "crash"})
    os.remove(out)


def beyond_limit(chk, scripts):
    """chains longer than the sentinel (possible because global middleware is not counted at registration): F20"""
    out = os.path.join(core.scratch(), "chain-f20.ndjson")
    with open(out, "w") as fo:
        def cb(o):
            fo.write(json.dumps(o, separators=(",", ":")))
            fo.write("\n")
        res = core.run_tlc("MC_Chain", cfg_text=ccfg("oddhead", 64, 66, scripts, invs=()), timeout=600, keep_lines=False, line_cb=cb)
    chk.add_tlc(res, "beyond the sentinel: n=64..66, N everywhere except %s at positions 1..3 (attributed to finding F20)" % scripts)
    s = core.run_harness(["chain", "replay", out], env={"VERIF_SEED": chk.seed}, timeout=3000)
    chk.absorb(s, "chain")
    os.remove(out)


def run(chk):
    thorough = chk.tier == "thorough"
    chk.assumptions += [
        "handler behaviours = scripts over in/next/abort/out; every chain is realised through real Use/Group/GET/Route.Use "
        "calls (all 7-way level splits for n<=3, two seeded splits otherwise) and as NotFound / NotAllowed chains",
        "documented handler limit: executed chain shorter than the sentinel 63 (+1); longer chains are finding F20",
    ]
    sc = ["R", "N", "NN"]
    instance(chk, "all", "all", 1, 5 if thorough else 4, sc + ["A", "NA"], kinds=("route", "notfound", "notallowed", "na-default"))
    instance(chk, "uniform", "uniform", 1 if thorough else 40, 63, sc)
    if thorough:
        instance(chk, "odd", "odd", 2, 63, ["R", "NN"], base="N")
    else:
        instance(chk, "odd", "odd", 44, 47, ["R", "NN"], base="N")
    library(chk, ORDER, maxn=3 if thorough else 2, extra=("N", "R"))
    from . import c08
    c08.redispatch(chk, ORDER)     # HandleContext from the last and from a middle handler of a chain: every handler at most once
    beyond_limit_order(chk)
    chk.exhaustive = True
    recorded(chk, 3000 if thorough else 400, ORDER)
    if thorough:   # the composition: registration programs with scripted handlers + request histories on a caching router
        from . import rux
        rux.simulate(chk, 40, only={"chain", "registration-panic", "panic"})
    neg_creeps(chk)


def replay(doc):
    print("replay:", doc.get("desc", {}).get("what", "")[:2000])
    p = os.path.join(core.scratch(), "case.ndjson")
    core.write_ndjson(p, [doc["replay"]["case"]])
    s = core.run_harness(["chain", "replay", p])
    print(json.dumps(s["mismatches"], indent=1)[:3000])
    return 1 if s["mismatch_count"] else 0
