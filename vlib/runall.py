#!/usr/bin/env python3
"""Run every claimed check of MANIFEST.json (quick or thorough) and print a table.  python3 vlib/runall.py [quick|thorough] [seed ...]"""
import json
import os
import subprocess
import sys
import time

V = os.path.dirname(os.path.dirname(os.path.abspath(__file__)))
tier = sys.argv[1] if len(sys.argv) > 1 else "quick"
seeds = sys.argv[2:] or ["1"]
m = json.load(open(os.path.join(V, "MANIFEST.json")))
bad = 0
for seed in seeds:
    for c in m["checks"]:
        cmd = c["quick_cmd"] if tier == "quick" else c["thorough_cmd"]
        t0 = time.time()
        env = dict(os.environ, VERIF_SEED=seed)
        p = subprocess.run(cmd, shell=True, cwd=V, env=env, stdout=subprocess.PIPE, stderr=subprocess.STDOUT, text=True)
        last = [l for l in p.stdout.strip().splitlines() if l.strip()][-1:] or [""]
        flag = "" if p.returncode == 0 else "   <<<<<<"
        if p.returncode != 0:
            bad += 1
            print(p.stdout[-1500:])
        print("seed=%s %s exit=%d %5.0fs %s%s" % (seed, c["property_id"], p.returncode, time.time() - t0, last[0][:150], flag), flush=True)
print("failures:", bad)
sys.exit(1 if bad else 0)
