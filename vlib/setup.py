#!/usr/bin/env python3
"""setup_cmd: offline build of the framework from files on disk (harness compile + tool sanity)."""
import os
import subprocess
import sys

sys.path.insert(0, os.path.dirname(os.path.dirname(os.path.abspath(__file__))))
from vlib import core  # noqa: E402

try:
    core.build_harness()
    core.build_harness(race=True)
    subprocess.run(["java", "-cp", "/opt/veriftools/tla/tla2tools.jar", "tlc2.TLC", "-h"], stdout=subprocess.DEVNULL,
                   stderr=subprocess.DEVNULL)
    print("setup ok")
except core.Inconclusive as e:
    print("setup failed:", e)
    sys.exit(1)
finally:
    core.remove_built()
