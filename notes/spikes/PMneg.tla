---- MODULE PMneg ----
EXTENDS Integers, Sequences, FiniteSets, TLC, Json, SequencesExt
CONSTANTS MaxLen, MaxTable
L(c) == [t |-> "lit", c |-> c]
V(n, k) == [t |-> "var", n |-> n, k |-> k]
INSTANCE PoolDef
NP == Len(Pool)
Chars == <<"/", "a", "b", "1", ".">>
Digits == {"0","1","2","3","4","5","6","7","8","9"}
WordCh == Digits \cup {"a","b","_"}
ClassOK(k, c, first) ==
  CASE k = "any" -> c # "/"
    [] k = "dig" -> c \in Digits
    [] k = "num" -> IF first THEN c \in (Digits \ {"0"}) ELSE c \in Digits
    [] k = "word" -> c \in WordCh
    [] k = "all" -> TRUE
    [] k = "rest1" -> TRUE
MinLen(k) == IF k = "all" THEN 0 ELSE 1
Ends(k, p, j) == { e \in (j + MinLen(k))..(Len(p) + 1) : \A x \in j..(e-1) : ClassOK(k, p[x], x = j) }

RECURSIVE MB(_,_,_,_)
MB(toks, i, p, j) ==
  IF i > Len(toks) THEN (IF j = Len(p) + 1 THEN {<<>>} ELSE {})
  ELSE LET tk == toks[i] IN
    IF tk.t = "lit"
    THEN IF j <= Len(p) /\ p[j] = tk.c THEN MB(toks, i+1, p, j+1) ELSE {}
    ELSE UNION { { << <<tk.n, SubSeq(p, j, e-1)>> >> \o b : b \in MB(toks, i+1, p, e) } : e \in Ends(tk.k, p, j) }

Flat(pat, nl) == FlattenSeq(SubSeq(pat, 1, nl))
Decomps(pat, p) == UNION { MB(Flat(pat, nl), 1, p, 1) : nl \in 1..Len(pat) }

\* all paths "/" \o w, |w| <= MaxLen-1
Words(n) == UNION { [1..k -> 1..Len(Chars)] : k \in 0..n }
PathOf(w) == <<"/">> \o [i \in 1..Len(w) |-> Chars[w[i]]]
PathSeq == SetToSeq({ PathOf(w) : w \in Words(MaxLen - 1) })
NPaths == Len(PathSeq)

\* memoised match matrix (constant)
Mat == [i \in 1..NP |-> [q \in 1..NPaths |-> Decomps(Pool[i], PathSeq[q])]]
M(i, q) == Mat[i][q] # {}

HasVar(lv) == \E x \in 1..Len(lv) : lv[x].t = "var"
IsStatic(pat) == Len(pat) = 1 /\ ~HasVar(pat[1])
\* literal prefix of level 1 as chars
RECURSIVE LitPrefix(_,_)
LitPrefix(lv, i) == IF i > Len(lv) \/ lv[i].t = "var" THEN <<>> ELSE <<lv[i].c>> \o LitPrefix(lv, i+1)
Start0(pat) == LitPrefix(pat[1], 1)
SlashPos(s) == { x \in 3..Len(s) : s[x] = "/" }    \* pos > 0 in start[1:]
AnyVar(pat) == \E l \in 1..Len(pat) : HasVar(pat[l])
First(pat) == LET s == Start0(pat) IN
              IF ~AnyVar(pat) THEN <<>> ELSE
              IF Len(s) > 1 /\ SlashPos(s) # {} THEN SubSeq(s, 2, (CHOOSE x \in SlashPos(s) : \A y \in SlashPos(s) : x <= y) - 1) ELSE <<>>
Start(pat) == LET s == Start0(pat) f == First(pat) IN
              IF Len(s) <= 1 THEN <<>> ELSE IF f # <<>> /\ Len(s) - Len(f) = 2 THEN <<>> ELSE s
IsPrefixOf(s, p) == Len(s) <= Len(p) /\ SubSeq(p, 1, Len(s)) = s
Text(pat) == [i \in 1..Len(pat[1]) |-> pat[1][i].c]

ReqFirst(p) == LET S == { x \in 3..Len(p) : p[x] = "/" } IN
               IF S = {} THEN <<>> ELSE SubSeq(p, 2, (CHOOSE x \in S : \A y \in S : x <= y) - 1)

MinOf(S) == CHOOSE x \in S : \A y \in S : x <= y
\* operational lookup over table T (seq of pool indices), all routes GET
Lookup(T, q) ==
  LET p == PathSeq[q]
      st == { i \in 1..Len(T) : IsStatic(Pool[T[i]]) /\ Text(Pool[T[i]]) = p }
      key == ReqFirst(p)
      rg == { i \in 1..Len(T) : ~IsStatic(Pool[T[i]]) /\ key # <<>> /\ First(Pool[T[i]]) = key
                                /\ IsPrefixOf(Start(Pool[T[i]]), p) /\ M(T[i], q) }
      ir == { i \in 1..Len(T) : ~IsStatic(Pool[T[i]]) /\ First(Pool[T[i]]) = <<>> /\ M(T[i], q) }
  IN IF st # {} THEN MinOf(st) ELSE IF rg # {} THEN MinOf(rg) ELSE IF ir # {} THEN MinOf(ir) ELSE 0

LiteralFirst(pat) == LET lv == pat[1] IN
   \E e \in 3..Len(lv) : /\ \A x \in 1..e : lv[x].t = "lit"
                         /\ lv[1].c = "/" /\ lv[e].c = "/" /\ \A x \in 2..(e-1) : lv[x].c # "/"
Rank(pat) == IF IsStatic(pat) THEN 0 ELSE IF LiteralFirst(pat) THEN 1 ELSE 2
Select(T, q) ==
  LET C == { i \in 1..Len(T) : M(T[i], q) }
  IN IF C = {} THEN 0
     ELSE LET r == MinOf({ Rank(Pool[T[i]]) : i \in C }) IN MinOf({ i \in C : Rank(Pool[T[i]]) = r })

StaticDup(T) == \E i, j \in 1..Len(T) : i < j /\ T[i] = T[j] /\ IsStatic(Pool[T[i]])
Tables == { T \in UNION { [1..k -> 1..NP] : k \in 1..MaxTable } : ~StaticDup(T) }

VARIABLE tbl
Init == tbl = <<>>
Next == /\ Len(tbl) < MaxTable
        /\ \E i \in 1..NP : tbl' = Append(tbl, i) /\ ~StaticDup(tbl')
Agree == tbl = <<>> \/ \A q \in 1..NPaths : Lookup(tbl, q) = Select(tbl, q)
Line == [t |-> tbl, hits |-> SelectSeq([q \in 1..NPaths |-> <<q, Select(tbl, q)>>], LAMBDA x : x[2] # 0)]
Emit == tbl = <<>> \/ PrintT(ToJson(Line))
ASSUME PrintT(<<"np", NP, "npaths", NPaths>>)
====
