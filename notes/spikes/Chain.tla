---- MODULE Chain ----
EXTENDS Integers, Sequences, FiniteSets, TLC
CONSTANTS MaxN, AbortIdx, MaxInt, Scripts, Uniform
\* int wrap: two's complement in [-(MaxInt+1) .. MaxInt]
Wrap(x) == IF x > MaxInt THEN x - 2*(MaxInt+1) ELSE x

Ops(b) == CASE b = "R"  -> <<"in","out">>
            [] b = "N"  -> <<"in","next","out">>
            [] b = "NN" -> <<"in","next","next","out">>
            [] b = "A"  -> <<"in","abort","out">>
            [] b = "AN" -> <<"in","abort","next","out">>
            [] b = "NA" -> <<"in","next","abort","out">>

VARIABLES chain, idx, stack, log, bad
vars == <<chain, idx, stack, log, bad>>

Chains == IF Uniform
          THEN { [i \in 1..n |-> b] : n \in 1..MaxN, b \in Scripts }
          ELSE UNION { [1..n -> Scripts] : n \in 1..MaxN }

Init == /\ chain \in Chains
        /\ idx = Wrap(-1 + 1)   \* ctx.Next(): index++
        /\ stack = << [k |-> "L"] >>
        /\ log = <<>>
        /\ bad = "no"

Top == stack[Len(stack)]
Pop == SubSeq(stack, 1, Len(stack)-1)
S == Len(chain)

\* loop head of Next(): for ; c.index < s; c.index++
LoopCheck ==
  /\ bad = "no" /\ stack # <<>> /\ Top.k = "L"
  /\ IF idx < S
     THEN IF idx < 0
          THEN bad' = "index out of range" /\ UNCHANGED <<idx, stack, log, chain>>
          ELSE /\ stack' = Append(stack, [k |-> "H", h |-> idx + 1, pc |-> 1])
               /\ UNCHANGED <<idx, log, bad, chain>>
     ELSE stack' = Pop /\ UNCHANGED <<idx, log, bad, chain>>

HStep ==
  /\ bad = "no" /\ stack # <<>> /\ Top.k = "H"
  /\ LET f == Top  ops == Ops(chain[f.h]) IN
     IF f.pc > Len(ops)
     THEN \* handler returns into enclosing loop: post statement c.index++
          /\ stack' = Pop /\ idx' = Wrap(idx + 1) /\ UNCHANGED <<log, bad, chain>>
     ELSE LET op == ops[f.pc]
              adv == [stack EXCEPT ![Len(stack)].pc = f.pc + 1] IN
          CASE op = "in"    -> log' = Append(log, <<"in", f.h, idx >= AbortIdx>>) /\ stack' = adv /\ UNCHANGED <<idx, bad, chain>>
            [] op = "out"   -> log' = Append(log, <<"out", f.h, idx >= AbortIdx>>) /\ stack' = adv /\ UNCHANGED <<idx, bad, chain>>
            [] op = "abort" -> idx' = AbortIdx /\ stack' = adv /\ UNCHANGED <<log, bad, chain>>
            [] op = "next"  -> idx' = Wrap(idx + 1) /\ stack' = Append(adv, [k |-> "L"]) /\ UNCHANGED <<log, bad, chain>>

\* a handler return pops H and the loop continues; loop return pops L into handler (no-op)
Next == LoopCheck \/ HStep

NoCrash == bad = "no"
\* each handler entered at most once
AtMostOnce == \A i \in 1..Len(log), j \in 1..Len(log) : (i # j /\ log[i][1] = "in" /\ log[j][1] = "in") => log[i][2] # log[j][2]
\* no handler enters after an abort happened (approx: in-event with aborted flag true)
NoEnterAfterAbort == \A i \in 1..Len(log) : log[i][1] = "in" => ~log[i][3]
====
