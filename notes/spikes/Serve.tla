---- MODULE Serve ----
EXTENDS Integers, Sequences, FiniteSets, TLC
CONSTANTS Reqs, GLen, GCap, InPlace
\* global middleware slice: handlers "g1".."gGLen", backing array of capacity GCap (cells beyond len hold "nil")
\* each request r targets its own route with main handler <<"main", r>> and no route middleware
VARIABLES garr,      \* backing array of Router.handlers
          pc, chain, \* per request: program counter; chain = [arr |-> "G" or r, len |-> n]
          own,       \* per-request privately allocated arrays
          i, log
vars == <<garr, pc, chain, own, i, log>>
G(k) == <<"g", k>>
Init == /\ garr = [k \in 1..GCap |-> IF k <= GLen THEN G(k) ELSE <<"nil">>]
        /\ pc = [r \in Reqs |-> "start"]
        /\ chain = [r \in Reqs |-> [arr |-> "none", len |-> 0]]
        /\ own = [r \in Reqs |-> <<>>]
        /\ i = [r \in Reqs |-> 0]
        /\ log = [r \in Reqs |-> <<>>]
\* handlers = append(r.handlers, routeChain...) where routeChain = <<main_r>>
Assemble(r) ==
  /\ pc[r] = "start"
  /\ IF InPlace /\ GLen > 0 /\ GLen + 1 <= GCap
     THEN /\ garr' = [garr EXCEPT ![GLen+1] = <<"main", r>>]
          /\ chain' = [chain EXCEPT ![r] = [arr |-> "G", len |-> GLen+1]]
          /\ UNCHANGED own
     ELSE /\ own' = [own EXCEPT ![r] = [k \in 1..GLen |-> garr[k]] \o << <<"main", r>> >>]
          /\ chain' = [chain EXCEPT ![r] = [arr |-> "own", len |-> GLen+1]]
          /\ UNCHANGED garr
  /\ pc' = [pc EXCEPT ![r] = "run"] /\ i' = [i EXCEPT ![r] = 1] /\ UNCHANGED log
Cell(r, k) == IF chain[r].arr = "G" THEN garr[k] ELSE own[r][k]
\* one handler boundary: read slot i, run it
Step(r) ==
  /\ pc[r] = "run"
  /\ IF i[r] <= chain[r].len
     THEN log' = [log EXCEPT ![r] = Append(@, Cell(r, i[r]))] /\ i' = [i EXCEPT ![r] = @ + 1] /\ UNCHANGED pc
     ELSE pc' = [pc EXCEPT ![r] = "done"] /\ UNCHANGED <<log, i>>
  /\ UNCHANGED <<garr, chain, own>>
Next == \E r \in Reqs : Assemble(r) \/ Step(r)
Solo(r) == [k \in 1..GLen |-> G(k)] \o << <<"main", r>> >>
NoInterference == \A r \in Reqs : pc[r] = "done" => log[r] = Solo(r)
PrefixOK == \A r \in Reqs : \A k \in 1..Len(log[r]) : log[r][k] = Solo(r)[k]
====
