import re,sys
# compact pattern syntax -> TLA+ levels. var: {name} {name:dig|all|rest1|word} {num}
def toks(s):
    out=[];i=0
    while i<len(s):
        if s[i]=='{':
            j=s.index('}',i); body=s[i+1:j]
            if ':' in body: n,k=body.split(':')
            elif body=='num': n,k='num','num'
            else: n,k=body,'any'
            out.append('V("%s","%s")'%(n,k)); i=j+1
        else:
            out.append('L("%s")'%s[i]); i+=1
    return '<<'+','.join(out)+'>>'
def pat(s):
    depth=s.count('[')
    core=s.rstrip(']')
    levels=core.split('[')
    return '<<'+','.join(toks(l) for l in levels)+'>>'
pool=[l.strip() for l in open(sys.argv[1]) if l.strip() and not l.startswith('#')]
print('Pool == <<')
print(',\n'.join('  '+pat(p) for p in pool))
print('>>')
print('PoolText == <<'+','.join('"%s"'%p.replace('\\','\\\\') for p in pool)+'>>')
