---- MODULE T ----
EXTENDS Naturals, Sequences, TLC, Json, IOUtils
Trace == ndJsonDeserialize(IOEnv.TRACE)
VARIABLES lru, l, ok
Touch(s, k) == <<k>> \o SelectSeq(s, LAMBDA x : x # k)
Has(s, k) == \E i \in 1..Len(s) : s[i] = k
Post(s, e) == CASE e.op = "reset" -> <<>>
                [] e.op = "set" -> LET t == Touch(s, e.k) IN IF Len(t) > e.cap THEN SubSeq(t, 1, e.cap) ELSE t
                [] e.op = "get" -> IF Has(s, e.k) THEN Touch(s, e.k) ELSE s
                [] e.op = "del" -> SelectSeq(s, LAMBDA x : x # e.k)
Init == lru = <<>> /\ l = 1 /\ ok = TRUE
Next == /\ l <= Len(Trace)
        /\ lru' = Post(lru, Trace[l])
        /\ ok' = (lru' = Trace[l].after)
        /\ l' = l + 1
Ok == ok
Done == l = Len(Trace) + 1
Accepted == TLCGet("stats").diameter = Len(Trace) + 1
====
