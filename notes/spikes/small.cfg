INIT Init
NEXT Next
CONSTANTS MaxN = 5
 AbortIdx = 63
 MaxInt = 127
 Scripts = {"R","N","NN","A","AN","NA"}
 Uniform = FALSE
INVARIANT NoCrash
INVARIANT AtMostOnce
INVARIANT NoEnterAfterAbort
CHECK_DEADLOCK FALSE
