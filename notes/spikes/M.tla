---- MODULE M ----
EXTENDS Naturals, Sequences, FiniteSets, TLC, Json, SequencesExt

Chars == {"/", "a", "b", "1", "."}
Digits == {"1"}
Class(c) == CASE c = "any" -> [chars |-> Chars \ {"/"}, min |-> 1]
              [] c = "dig" -> [chars |-> Digits, min |-> 1]
              [] c = "all" -> [chars |-> Chars, min |-> 0]

Lit(c) == [t |-> "lit", c |-> c]
Var(n, k) == [t |-> "var", n |-> n, k |-> k]

\* set of end positions e (exclusive) such that path[j..e-1] is a value of class k
Ends(k, path, j) ==
  LET cl == Class(k) IN
  { e \in (j + cl.min)..(Len(path)+1) : \A x \in j..(e-1) : path[x] \in cl.chars }

RECURSIVE MB(_,_,_,_)
\* bindings for matching toks[i..] against path[j..] fully
MB(toks, i, path, j) ==
  IF i > Len(toks) THEN (IF j = Len(path)+1 THEN {<<>>} ELSE {})
  ELSE LET tk == toks[i] IN
    IF tk.t = "lit" THEN
       IF j <= Len(path) /\ path[j] = tk.c THEN MB(toks, i+1, path, j+1) ELSE {}
    ELSE UNION { { <<[n |-> tk.n, v |-> SubSeq(path, j, e-1)]>> \o b : b \in MB(toks, i+1, path, e) } : e \in Ends(tk.k, path, j) }

P1 == <<Lit("/"), Lit("a"), Lit("/"), Var("id","any")>>
P2 == <<Lit("/"), Var("x","all"), Lit("/"), Var("y","dig")>>
Paths == UNION { [1..n -> Chars] : n \in 1..6 }
Cases == { [p |-> p, r1 |-> MB(P1, 1, p, 1), r2 |-> MB(P2,1,p,1)] : p \in Paths }
ASSUME PrintT(<<"npaths", Cardinality(Paths)>>)
ASSUME PrintT(<<"matched", Cardinality({c \in Cases : c.r1 # {} \/ c.r2 # {}})>>)
ASSUME ndJsonSerialize("/tmp/spike/cases.ndjson", SetToSeq({c \in Cases : c.r2 # {}}))
ASSUME PrintT(Len("abc") = 3 /\ ("ab" \o "c") = "abc")
VARIABLE x
Init == x = 0
Next == UNCHANGED x
====
