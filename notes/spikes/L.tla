---- MODULE L ----
EXTENDS Naturals, Sequences, FiniteSets, TLC, Json, SequencesExt
CONSTANTS Keys, Cap
VARIABLES lru, hist
vars == <<lru, hist>>
Init == lru = <<>> /\ hist = <<>>
Touch(k) == <<k>> \o SelectSeq(lru, LAMBDA x : x # k)
Set(k) == /\ lru' = (LET t == Touch(k) IN IF Len(t) > Cap THEN SubSeq(t, 1, Cap) ELSE t)
          /\ hist' = Append(hist, [op |-> "set", k |-> k, after |-> lru'])
Get(k) == /\ lru' = (IF \E i \in 1..Len(lru) : lru[i] = k THEN Touch(k) ELSE lru)
          /\ hist' = Append(hist, [op |-> "get", k |-> k, hit |-> (\E i \in 1..Len(lru) : lru[i] = k), after |-> lru'])
Del(k) == /\ lru' = SelectSeq(lru, LAMBDA x : x # k)
          /\ hist' = Append(hist, [op |-> "del", k |-> k, after |-> lru'])
Next == \E k \in Keys : Set(k) \/ Get(k) \/ Del(k)
Bounded == Len(lru) <= Cap
View == lru
Emit == PrintT(ToJson([h |-> hist]))
EmitEdge == PrintT(ToJson([h |-> hist']))
====
