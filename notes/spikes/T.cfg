INIT Init
NEXT Next
INVARIANT Ok
POSTCONDITION Accepted
CHECK_DEADLOCK FALSE
