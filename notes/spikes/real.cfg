INIT Init
NEXT Next
CONSTANTS MaxN = 63
 AbortIdx = 63
 MaxInt = 127
 Scripts = {"R","N","NN","A","AN","NA"}
 Uniform = TRUE
INVARIANT NoCrash
INVARIANT AtMostOnce
CHECK_DEADLOCK FALSE
