INIT Init
NEXT Next
CONSTANTS Keys = {"a","b","c"}
 Cap = 2
INVARIANT Bounded
VIEW View
ACTION_CONSTRAINT EmitEdge
